"""File-writing operations (C20) and the harness's own reader of what is on disk."""
from __future__ import annotations

import gzip
import hashlib
import json
import os
from typing import Any, Dict, List, Optional

from . import simenv
from .canon import canon_value
from .session import State, _abs, _rel, op


def read_any(env: simenv.SimEnv, path: str, with_doc: bool = True) -> Dict[str, Any]:
    """What the bytes of ``path`` really are (bypasses the fault layer)."""
    out: Dict[str, Any] = {"exists": env.real_exists(path)}
    if not out["exists"]:
        return out
    with env.real_open(path, "rb") as fh:
        raw = fh.read()
    out["is_gzip"] = raw[:2] == b"\x1f\x8b"
    data = raw
    if out["is_gzip"]:
        # (a gzip header carries the wall-clock time of writing: never log raw gzip bytes)
        try:
            data = gzip.decompress(raw)
        except Exception as exc:  # noqa: BLE001
            out["valid"] = False
            out["error"] = type(exc).__name__
            return out
    out["size"] = len(data)
    out["sha"] = hashlib.sha256(data).hexdigest()[:16]
    try:
        doc = json.loads(data)
        out["valid"] = isinstance(doc, dict)
        if with_doc:
            out["doc"] = doc
        out["indented"] = b"\n" in data[:200]
    except Exception as exc:  # noqa: BLE001
        out["valid"] = False
        out["error"] = type(exc).__name__
    return out


def snapshot(env: simenv.SimEnv, root: str) -> Dict[str, str]:
    snap: Dict[str, str] = {}
    for dirpath, _dirs, files in os.walk(root):
        for fn in files:
            p = os.path.join(dirpath, fn)
            try:
                with env.real_open(p, "rb") as fh:
                    raw = fh.read()
                if raw[:2] == b"\x1f\x8b":
                    # a gzip header carries the wall-clock second of writing: two writes of the same content are
                    # "the same file" whether or not a second boundary lies between them
                    try:
                        raw = b"gz:" + gzip.decompress(raw)
                    except Exception:  # noqa: BLE001
                        raw = raw[:4] + b"\0\0\0\0" + raw[8:]
                snap[os.path.relpath(p, root)] = hashlib.sha256(raw).hexdigest()[:16]
            except OSError:
                snap[os.path.relpath(p, root)] = "unreadable"
    return snap


def changed(env: simenv.SimEnv, root: str, before: Dict[str, str], with_doc: bool = True) -> Dict[str, Any]:
    after = snapshot(env, root)
    out: Dict[str, Any] = {}
    for rel in sorted(after):
        if before.get(rel) != after[rel] and (rel.endswith(".json") or rel.endswith(".gz")):
            out[rel] = read_any(env, os.path.join(root, rel), with_doc)
    removed = sorted(set(before) - set(after))
    return {"files": out, "removed": removed}


def tool_read(path: str) -> Dict[str, Any]:
    """Read a file with the reader the tool itself offers."""
    from hta.common.trace_file import read_trace
    try:
        doc = read_trace(path)
        return {"ok": True, "doc_sha": hashlib.sha256(json.dumps(doc, sort_keys=True).encode()).hexdigest()[:16]}
    except Exception as exc:  # noqa: BLE001
        if type(exc).__name__ in ("SimDeadlock", "SimHarnessError", "SessionKilled"):
            raise
        return {"ok": False, "exc": type(exc).__name__}


def _annotate_tool_reads(state: State, ch: Dict[str, Any]) -> None:
    for rel, info in ch["files"].items():
        info["tool_read"] = tool_read(os.path.join(state.world_dir, rel))
        if info.get("valid") and "doc" in info:
            info["harness_doc_sha"] = hashlib.sha256(json.dumps(info["doc"], sort_keys=True).encode()).hexdigest()[:16]


@op("gen_counters")
def op_gen_counters(state: State, a: Dict[str, Any], env: simenv.SimEnv) -> Any:
    from hta.trace_analysis import TimeSeriesTypes
    before = snapshot(env, state.world_dir)
    ts = None
    sel = a.get("series")
    if sel == "queue":
        ts = TimeSeriesTypes.QUEUE_LENGTH
    elif sel == "bw":
        ts = TimeSeriesTypes.MEMCPY_BANDWIDTH
    elif sel == "both":
        ts = TimeSeriesTypes.QUEUE_LENGTH | TimeSeriesTypes.MEMCPY_BANDWIDTH
    kwargs: Dict[str, Any] = {}
    if a.get("suffix") is not None:
        kwargs["output_suffix"] = a["suffix"]
    try:
        state.ta.generate_trace_with_counters(time_series=ts, ranks=a.get("ranks"), **kwargs)
        err = None
    except simenv.SessionKilled:
        raise
    except Exception as exc:  # noqa: BLE001
        if type(exc).__name__ in ("SimDeadlock", "SimHarnessError"):
            raise
        err = type(exc).__name__
    ch = changed(env, state.world_dir, before)
    if err is None:
        _annotate_tool_reads(state, ch)
    ch["raised"] = err
    ch["min_ts"] = canon_value(state.trace.min_ts)
    return ch


@op("write_trace")
def op_write_trace(state: State, a: Dict[str, Any], env: simenv.SimEnv) -> Any:
    from hta.common.trace_file import read_trace, write_trace
    before = snapshot(env, state.world_dir)
    data = read_trace(_abs(state, a["src"]))
    write_trace(data, _abs(state, a["dst"]))
    ch = changed(env, state.world_dir, before)
    _annotate_tool_reads(state, ch)
    return ch


@op("update_rank")
def op_update_rank(state: State, a: Dict[str, Any], env: simenv.SimEnv) -> Any:
    from hta.common.trace_file import update_trace_rank
    before = snapshot(env, state.world_dir)
    update_trace_rank(_abs(state, a["path"]), int(a["rank"]))
    ch = changed(env, state.world_dir, before)
    _annotate_tool_reads(state, ch)
    return ch


@op("replace_source")
def op_replace_source(state: State, a: Dict[str, Any], env: simenv.SimEnv) -> Any:
    """The outside world replaces a trace file while the session lives: a newer export of the profiler, a copy that
    keeps its timestamps (cp -p, rsync -t, a restore from backup). Not an operation of the tool: done with the real
    file layer. The new document is the old one with one host operator renamed; its modification time is kept, set to
    the simulated now, or older than before."""
    path = _abs(state, a["path"])
    info = read_any(env, path)
    if not info.get("valid"):
        return {"skipped": True}
    doc = info["doc"]
    evs = doc.get("traceEvents") or []
    idx = [i for i, e in enumerate(evs) if isinstance(e, dict) and e.get("cat") == "cpu_op" and "dur" in e]
    if not idx:
        return {"skipped": True}
    k = idx[int(a.get("pick", 0)) % len(idx)]
    evs[k]["name"] = str(evs[k]["name"]) + "_v2"
    old = os.stat(path).st_mtime
    data = json.dumps(doc).encode()
    if info.get("is_gzip"):
        data = gzip.compress(data, mtime=0)
    with env.real_open(path, "wb") as fh:
        fh.write(data)
    mode = a.get("mtime", "keep")
    t = old if mode == "keep" else (old - 3600.0 if mode == "older" else env._clock_now)
    env.stamp(path, t)
    return {"path": a["path"], "doc": doc, "renamed": k}


@op("read_trace")
def op_read_trace(state: State, a: Dict[str, Any], env: simenv.SimEnv) -> Any:
    from hta.common.trace_file import read_trace
    doc = read_trace(_abs(state, a["path"]))
    return {"doc": doc}


@op("disk")
def op_disk(state: State, a: Dict[str, Any], env: simenv.SimEnv) -> Any:
    """What is on disk now (used after kills and faults)."""
    out: Dict[str, Any] = {}
    for rel in a.get("paths") or sorted(snapshot(env, state.world_dir)):
        p = os.path.join(state.world_dir, rel)
        if rel.endswith(".json") or rel.endswith(".gz"):
            out[rel] = read_any(env, p, with_doc=bool(a.get("docs", True)))
    return {"files": out}
