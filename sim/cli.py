"""Command line: python -m sim.cli check <id> --tier quick|thorough | replay <file> | selftest ..."""
from __future__ import annotations

import argparse
import os
import sys


def main(argv=None) -> int:
    ap = argparse.ArgumentParser(prog="sim.cli")
    sub = ap.add_subparsers(dest="cmd", required=True)
    c = sub.add_parser("check")
    c.add_argument("id")
    c.add_argument("--tier", default=os.environ.get("VERIF_TIER", "quick"), choices=["quick", "thorough"])
    c.add_argument("--runs", type=int, default=None)
    c.add_argument("--no-evidence", action="store_true")
    r = sub.add_parser("replay")
    r.add_argument("path")
    s = sub.add_parser("selftest")
    s.add_argument("what", choices=["determinism", "sensitivity"])
    s.add_argument("--ids", default="")
    s.add_argument("--runs", type=int, default=None)
    d = sub.add_parser("digests")
    d.add_argument("--ids", required=True)
    d.add_argument("--runs", type=int, default=20)
    d.add_argument("--jobs", type=int, default=16)
    d.add_argument("--seed", type=int, default=0)
    args = ap.parse_args(argv)
    if args.cmd == "digests":
        import json
        from . import driver, selftest
        driver.set_hash_seeds(args.seed, "quick")
        print(json.dumps(selftest.digests(args.ids.split(","), args.runs, args.jobs, args.seed)))
        return 0

    # a fixed hash seed for the driver itself (its behaviour must not depend on it; the
    # determinism self-test runs the driver under other values)
    if args.cmd == "check":
        from . import checks, runner
        seed = int(os.environ.get("VERIF_SEED", "0"))
        jobs = int(os.environ.get("VERIF_JOBS", "16"))
        max_wall = float(os.environ.get("VERIF_MAX_WALL", "1500" if args.tier == "quick" else "14000"))
        spec = checks.get_spec(args.id)
        from . import driver
        driver.set_hash_seeds(seed, args.tier)
        return runner.run_check(spec, args.tier, seed, jobs, max_wall, write_evidence=not args.no_evidence,
                                runs_override=args.runs)
    if args.cmd == "replay":
        from . import replay
        return replay.replay_file(args.path)
    if args.cmd == "selftest":
        from . import selftest
        if args.what == "determinism":
            return selftest.determinism(args.ids.split(",") if args.ids else None, args.runs)
        return selftest.sensitivity(args.ids.split(",") if args.ids else None)
    return 2


if __name__ == "__main__":
    try:
        code = main()
    except SystemExit:
        raise
    except BaseException as exc:  # noqa: BLE001 - never exit 0 on a harness crash
        import traceback
        traceback.print_exc()
        print(f"HARNESS PROBLEM: {type(exc).__name__}: {exc}")
        code = 2
    sys.exit(code)
