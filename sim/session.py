"""The simulated session: runs inside a child forked from a zygote (one interpreter life),
installs the SimEnv seams, interprets the plan's operation list against the working-tree
``hta`` through its public API and streams events (JSON lines) back to the driver.

Only this module (and canon.py) touches pandas / hta; oracles run in the driver over the
streamed observations.
"""
from __future__ import annotations

import json
import os
import sys
import traceback
from typing import Any, Callable, Dict, List, Optional

from . import simenv
from .canon import canon_value, digest, frame_rows
from .simpool import SimDeadlock, SimHarnessError

LOADER_COLS = ["index", "ts", "dur", "end", "pid", "tid", "stream", "correlation",
               "index_correlation", "iteration", "name", "cat"]
STACK_COLS = ["parent", "depth", "height", "num_kernels", "kernel_dur_sum", "kernel_span",
              "first_kernel_start", "last_kernel_end"]

OPS: Dict[str, Callable[..., Any]] = {}
NO_TRACE_NEEDED = {"load", "discover", "noop", "symtab_history", "write_trace", "update_rank", "read_trace", "disk", "replace_source"}


def op(name: str):
    def deco(fn):
        OPS[name] = fn
        return fn
    return deco


class State:
    def __init__(self, world_dir: str) -> None:
        self.world_dir = world_dir
        self.ta: Any = None
        self.trace: Any = None
        self.graphs: List[Any] = []
        self.tables: Dict[str, Any] = {}
        self.misc: Dict[str, Any] = {}


def _abs(state: State, rel: str) -> str:
    return rel if os.path.isabs(rel) else os.path.join(state.world_dir, rel)


def _rel(state: State, path: str) -> str:
    p = os.path.normpath(path)
    root = state.world_dir
    if p.startswith(root + os.sep):
        return p[len(root) + 1:]
    return p


def observe_trace(state: State, t: Any, cols: Optional[List[str]] = None) -> Dict[str, Any]:
    sym = list(t.symbol_table.get_sym_table())
    ranks: Dict[str, Any] = {}
    iters: Dict[str, Any] = {}
    for rank in sorted(t.traces.keys()):
        df = t.traces[rank]
        ranks[str(rank)] = frame_rows(df, cols or LOADER_COLS, sym)
        try:
            iters[str(rank)] = [canon_value(x) for x in t.get_iterations(rank)]
        except Exception as exc:  # noqa: BLE001
            iters[str(rank)] = "EXC:" + type(exc).__name__
    return {
        "trace_files": {str(r): _rel(state, p) for r, p in sorted(t.trace_files.items())},
        "min_ts": canon_value(t.min_ts),
        "sym": sym,
        "sym_index_ok": all(t.symbol_table.sym_index.get(s) == i for i, s in enumerate(sym))
        and len(t.symbol_table.sym_index) == len(sym),
        "ranks": ranks,
        "iterations": iters,
        "is_parsed": bool(t.is_parsed),
    }


@op("load")
def op_load(state: State, a: Dict[str, Any], env: simenv.SimEnv) -> Any:
    from hta.common.trace import Trace
    from hta.trace_analysis import TraceAnalysis

    via = a.get("via", "dir")
    mode = a.get("mode", "ta")
    inc = bool(a.get("include_last", False))
    trace_dir = state.world_dir if a.get("abs_dir", True) else "./"
    if a.get("subdir"):
        trace_dir = os.path.join(trace_dir, a["subdir"])
    files: Any = None
    if via == "dict":
        files = {int(r): (_abs(state, p) if a.get("abs_files", True) else p) for r, p in a["files"].items()}
    elif via == "list":
        files = [_abs(state, p) for p in a["files"]]
    if mode == "ta":
        ta = TraceAnalysis(trace_files=files, trace_dir=trace_dir, include_last_profiler_step=inc)
        t = ta.t
    else:
        # the user calls the loading method again on the object of the previous attempt - when that attempt
        # got as far as having an object (same arguments, same method)
        key = json.dumps([mode, via, a.get("files"), a.get("subdir"), a.get("abs_files", True)], sort_keys=True, default=str)
        prev = state.misc.pop("last_trace_object", None)
        fresh = True
        if a.get("retry_same_object") and prev is not None and prev[0] == key:
            t = prev[1]
            fresh = False
        else:
            t = Trace(trace_files=files, trace_dir=trace_dir)
        state.misc["last_trace_object"] = (key, t)
        # (only on a fresh object: on a loaded one parse_single_rank re-parses the rank with its raw timestamps and
        # load_traces is then the documented no-op "already parsed and loaded" - that history proves nothing)
        for r in (a.get("first_single") or []) if fresh else []:
            if int(r) in t.trace_files:
                t.parse_single_rank(int(r))
        if mode == "full":
            t.load_traces(include_last_profiler_step=inc, use_multiprocessing=bool(a.get("mp", True)),
                          use_memory_profiling=bool(a.get("memprof", True)))
        elif mode == "parse":
            t.parse_traces(max_ranks=int(a.get("max_ranks", -1)), use_multiprocessing=bool(a.get("mp", True)),
                           use_memory_profiling=bool(a.get("memprof", True)))
        elif mode == "single":
            order = a.get("order")
            if order is None:
                order = sorted(t.trace_files.keys())
            for r in order:
                t.parse_single_rank(int(r))
        else:
            raise SimHarnessError(f"unknown load mode {mode}")
        ta = TraceAnalysis.__new__(TraceAnalysis)
        ta.t = t
    state.ta = ta
    state.trace = t
    state.graphs = []
    obs = observe_trace(state, t)
    if mode in ("ta", "full"):
        try:
            obs["profiler_steps"] = [canon_value(x) for x in ta.get_profiler_steps()]
        except Exception as exc:  # noqa: BLE001
            obs["profiler_steps"] = "EXC:" + type(exc).__name__
    return obs


@op("observe")
def op_observe(state: State, a: Dict[str, Any], env: simenv.SimEnv) -> Any:
    """Re-read the session's frames (used between other operations)."""
    cols = LOADER_COLS + (STACK_COLS if a.get("stack") else [])
    return observe_trace(state, state.trace, cols)


@op("discover")
def op_discover(state: State, a: Dict[str, Any], env: simenv.SimEnv) -> Any:
    from hta.common.trace_file import create_rank_to_trace_dict, get_trace_files
    if a.get("files") is not None:
        ok, d = create_rank_to_trace_dict([_abs(state, p) for p in a["files"]])
    else:
        d = get_trace_files(_abs(state, a.get("dir", ".")))
        ok = True
    return {"ok": bool(ok), "map": {str(r): _rel(state, p) for r, p in sorted(d.items())}}


@op("noop")
def op_noop(state: State, a: Dict[str, Any], env: simenv.SimEnv) -> Any:
    return {}


def apply_pre(state: State, pre: List[Dict[str, Any]], env: simenv.SimEnv) -> None:
    """Faults applied to the durable state before the session starts."""
    for f in pre:
        kind = f["kind"]
        path = _abs(state, f["path"]) if "path" in f else None
        if path is not None and f["path"].startswith("@tmp/"):
            # the directory restore_cpgraph extracts into: /tmp/ + archived path
            path = "/tmp/" + state.world_dir.lstrip("/") + "/" + f["path"][len("@tmp/"):]
        if kind == "truncate":
            if path is None or not os.path.exists(path):
                continue
            size = os.path.getsize(path)
            keep = f["bytes"] if "bytes" in f else int(size * f.get("fraction", 0.5))
            keep = max(0, min(size, keep))
            with env.real_open(path, "r+b") as fh:
                fh.truncate(keep)
            env.log("fault_fired", kind="torn_file", path=f["path"], kept=keep, size=size)
        elif kind == "remove":
            if path and os.path.exists(path):
                os.remove(path)
                env.log("fault_fired", kind="removed_file", path=f["path"])
        elif kind == "stale_dir":
            os.makedirs(path, exist_ok=True)
            for name, content in f.get("files", {}).items():
                with env.real_open(os.path.join(path, name), "wb") as fh:
                    fh.write(content.encode())
            env.log("fault_fired", kind="stale_dir", path=f["path"], n=len(f.get("files", {})))
        elif kind == "flip_byte":
            if path is None or not os.path.exists(path):
                continue
            size = os.path.getsize(path)
            if size == 0:
                continue
            pos = f.get("pos", size // 2) % size
            with env.real_open(path, "r+b") as fh:
                fh.seek(pos)
                b = fh.read(1)
                fh.seek(pos)
                fh.write(bytes([b[0] ^ f.get("mask", 0x01)]))
            # what the bytes on disk are now: the oracle judges later loads against this
            from .ops_files import read_any
            info = read_any(env, path)
            env.log("fault_fired", kind="flip_byte", path=f["path"], pos=pos, valid=bool(info.get("valid")),
                    doc=info.get("doc") if info.get("valid") else None)
        elif kind == "flip_zip_member":
            # one stored byte of one member's data inside an archive (the member's CRC no longer matches)
            import struct
            import zipfile
            if path is None or not os.path.exists(path):
                continue
            try:
                with env.real_open(path, "rb") as fh:
                    zf = zipfile.ZipFile(fh)
                    info = next((zi for zi in zf.infolist() if zi.filename.endswith(f["member"])), None)
                    if info is None or info.compress_size == 0:
                        continue
                    fh.seek(info.header_offset)
                    hdr = fh.read(30)
                    n_name, n_extra = struct.unpack("<HH", hdr[26:30])
                    start = info.header_offset + 30 + n_name + n_extra
                    pos = start + min(info.compress_size - 1, int(float(f.get("frac", 0.5)) * info.compress_size))
            except Exception:  # noqa: BLE001 - not a readable archive (torn by an earlier fault): nothing to flip
                continue
            with env.real_open(path, "r+b") as fh:
                fh.seek(pos)
                b = fh.read(1)
                fh.seek(pos)
                fh.write(bytes([b[0] ^ f.get("mask", 0x01)]))
            env.log("fault_fired", kind="flip_zip_member", path=f["path"], member=f["member"], pos=pos)
        else:
            raise SimHarnessError(f"unknown pre-fault {kind}")


def run_session(sess: Dict[str, Any], world_dir: str, emit: Callable[[Dict[str, Any]], None]) -> int:
    """Returns the process exit code to use."""
    import logging
    # the cyclic garbage collector is a scheduler of its own (it decides when the finaliser of an abandoned
    # file object runs, e.g. the gzip writer of a write that failed): the session owns that schedule.
    # Automatic collection is off; a full collection runs at every operation boundary.
    import gc
    gc.disable()
    try:
        from hta.configs.config import logger as hta_logger
        hta_logger.setLevel(getattr(logging, str(sess.get("env", {}).get("log_level", "CRITICAL")), logging.CRITICAL))
    except Exception:  # noqa: BLE001
        pass
    import random
    random.seed(int(sess.get("env", {}).get("random_seed", 0)))
    try:
        import numpy as np
        np.random.seed(int(sess.get("env", {}).get("random_seed", 0)) % (2 ** 32))
    except Exception:  # noqa: BLE001
        pass
    env = simenv.current()
    if env is not None and env._installed:
        env.configure(sess.get("env", {}), world_dir, emit)   # seams installed by the zygote before hta was imported
        env.active = True
    else:
        env = simenv.SimEnv(sess.get("env", {}), world_dir, emit)
        env.install()
    state = State(os.path.realpath(world_dir))
    os.chdir(state.world_dir)
    # ops modules register themselves on import
    from . import ops_analysis, ops_cp, ops_files, ops_symtab  # noqa: F401
    try:
        apply_pre(state, sess.get("pre", []), env)
    except Exception as exc:  # noqa: BLE001
        emit({"ev": "harness_error", "where": "pre", "exc": type(exc).__name__, "msg": str(exc)[:300]})
        return 3
    env.normalise_mtimes()
    base_environ = dict(os.environ)
    for i, o in enumerate(sess["ops"]):
        gc.collect()
        env.cur_op = i
        env.cur_op_name = o["op"]
        env.clock_jump()
        # per-operation environment flags
        for k in list(os.environ.keys()):
            if k.startswith(("HTA_", "CRITICAL_PATH_")):
                del os.environ[k]
        for k, v in (o.get("environ") or {}).items():
            os.environ[k] = str(v)
        emit({"ev": "op_begin", "i": i, "op": o["op"]})
        fn = OPS.get(o["op"])
        if fn is None:
            emit({"ev": "harness_error", "i": i, "where": "dispatch", "msg": f"unknown op {o['op']}"})
            return 3
        if o["op"] not in NO_TRACE_NEEDED and state.trace is None:
            # an earlier load failed: nothing to operate on (neither a violation nor a harness problem)
            emit({"ev": "op_end", "i": i, "op": o["op"], "ok": None, "exc": "NoLoadedTrace", "skipped": True})
            continue
        try:
            obs = fn(state, o, env)
            env.threads.drain()   # threads the operation started and never joined finish before the next operation
            emit({"ev": "op_end", "i": i, "op": o["op"], "ok": True, "obs": obs})
        except simenv.SessionKilled:
            emit({"ev": "op_end", "i": i, "op": o["op"], "ok": False, "exc": "SessionKilled", "killed": True})
            emit({"ev": "session_end", "killed": True, "stats": env.stats})
            return simenv.KILL_EXIT
        except (SimHarnessError, SimDeadlock) as exc:
            emit({"ev": "harness_error", "i": i, "where": "op", "exc": type(exc).__name__,
                  "msg": str(exc)[:300], "tb": traceback.format_exc()[-1500:]})
            return 3
        except Exception as exc:  # noqa: BLE001 - the system under test may raise anything
            tb = traceback.extract_tb(exc.__traceback__)
            where = ""
            for fr in reversed(tb):
                if "/hta/" in fr.filename:
                    where = f"{fr.filename.split('/hta/')[-1]}:{fr.name}"
                    break
            if not where and not isinstance(exc, OSError):
                # raised by the harness's own code, not by the system under test
                emit({"ev": "harness_error", "i": i, "where": "op-code", "exc": type(exc).__name__,
                      "msg": str(exc)[:300], "tb": traceback.format_exc()[-1500:]})
                return 3
            emit({"ev": "op_end", "i": i, "op": o["op"], "ok": False, "exc": type(exc).__name__,
                  "msg": str(exc)[:200], "where": where})
        if o.get("kill_after"):
            emit({"ev": "fault_fired", "i": i, "kind": "kill_after_op"})
            emit({"ev": "session_end", "killed": True, "stats": env.stats})
            return simenv.KILL_EXIT
    gc.collect()
    os.environ.clear()
    os.environ.update(base_environ)
    env.stats["clock_s"] = round(env._clock_fwd, 4)
    emit({"ev": "session_end", "killed": False, "stats": env.stats})
    return 0
