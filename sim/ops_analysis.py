"""Analysis battery (C11 c): every public getter, run with seeded parameters, results in
canonical form so that sessions which differ only in hash seed / pool use / schedule can be
compared."""
from __future__ import annotations

import json
import os
from typing import Any, Dict, List

from . import simenv
from .canon import canon_value
from .session import State, op

DECODE_COLS = ("name", "cat", "user_annotation")


def _row_key(row: Dict[str, Any]) -> str:
    parts = []
    for k in sorted(row):
        v = row[k]
        if isinstance(v, float):
            v = float(f"{v:.6g}")
        parts.append((k, v))
    return json.dumps(parts, sort_keys=True, default=str)


def canon_result(x: Any, sym: List[str]) -> Any:
    import pandas as pd
    if x is None:
        return None
    if isinstance(x, pd.DataFrame):
        df = x
        if isinstance(df.columns, pd.MultiIndex):
            df = df.copy()
            df.columns = ["|".join(str(c) for c in col) for col in df.columns]
        if not isinstance(df.index, pd.RangeIndex):
            names = [n if n is not None else f"idx{i}" for i, n in enumerate(df.index.names)]
            df = df.copy()
            df.index = df.index.set_names(names) if isinstance(df.index, pd.MultiIndex) else df.index.rename(names[0])
            df = df.reset_index(drop=False) if not set(names) & set(map(str, df.columns)) else df.reset_index(drop=True)
        rows = []
        cols = [str(c) for c in df.columns]
        data = {str(c): df[c].tolist() for c in df.columns}
        kinds = {str(c): getattr(df[c].dtype, "kind", "O") for c in df.columns}
        for i in range(len(df)):
            row = {}
            for c in cols:
                v = canon_value(data[c][i])
                if c in DECODE_COLS and kinds[c] in "iuf" and isinstance(v, int) and not isinstance(v, bool):
                    v = sym[v] if 0 <= v < len(sym) else v
                row[c] = v
            rows.append(row)
        rows.sort(key=_row_key)
        return {"__df__": rows, "columns": sorted(cols)}
    if isinstance(x, pd.Series):
        items = [[str(k), canon_value(v)] for k, v in x.items()]
        items.sort(key=lambda kv: kv[0])
        return {"__series__": items}
    if isinstance(x, dict):
        return {str(k): canon_result(v, sym) for k, v in sorted(x.items(), key=lambda kv: str(kv[0]))}
    if isinstance(x, (list, tuple)):
        return [canon_result(v, sym) for v in x]
    return canon_value(x)


def _call(fn, sym: List[str]) -> Any:
    try:
        return canon_result(fn(), sym)
    except Exception as exc:  # noqa: BLE001
        if type(exc).__name__ in ("SimDeadlock", "SimHarnessError"):
            raise
        return {"__exc__": type(exc).__name__}


@op("battery")
def op_battery(state: State, a: Dict[str, Any], env: simenv.SimEnv) -> Any:
    """Run the getters named in a["getters"] (list of {"g": name, ...params})."""
    ta = state.ta
    t = state.trace
    sym = list(t.symbol_table.get_sym_table())
    ranks = sorted(t.traces.keys())
    out: Dict[str, Any] = {}
    for gi, g in enumerate(a["getters"]):
        name = g["g"]
        key = f"{gi}:{name}"
        env.log("getter", n=gi, g=name)
        rk = [r for r in g.get("ranks", ranks) if r in ranks] or ranks[:1]
        if name == "temporal_breakdown":
            out[key] = _call(lambda: ta.get_temporal_breakdown(visualize=False), sym)
        elif name == "gpu_kernel_breakdown":
            out[key] = _call(lambda: ta.get_gpu_kernel_breakdown(
                visualize=False, duration_ratio=g.get("duration_ratio", 0.8), num_kernels=g.get("num_kernels", 10),
                include_memory_kernels=g.get("include_memory_kernels", True)), sym)
        elif name == "idle_time_breakdown":
            out[key] = _call(lambda: ta.get_idle_time_breakdown(
                ranks=rk, visualize=False, show_idle_interval_stats=g.get("stats", True),
                consecutive_kernel_delay=g.get("delay", 30)), sym)
        elif name == "comm_comp_overlap":
            out[key] = _call(lambda: ta.get_comm_comp_overlap(visualize=False), sym)
        elif name == "launch_stats":
            out[key] = _call(lambda: ta.get_cuda_kernel_launch_stats(
                ranks=rk, include_memory_events=g.get("mem", True), visualize=False), sym)
        elif name == "queue_length_series":
            out[key] = _call(lambda: ta.get_queue_length_time_series(rk), sym)
        elif name == "queue_length_summary":
            out[key] = _call(lambda: ta.get_queue_length_summary(rk), sym)
        elif name == "blocked_on_full_queue":
            out[key] = _call(lambda: ta.get_time_spent_blocked_on_full_queue(
                ta.get_queue_length_time_series(rk), g.get("max_queue", 2)), sym)
        elif name == "memory_bw_series":
            out[key] = _call(lambda: ta.get_memory_bw_time_series(rk), sym)
        elif name == "memory_bw_summary":
            out[key] = _call(lambda: ta.get_memory_bw_summary(rk), sym)
        elif name == "stragglers":
            out[key] = _call(lambda: ta.get_potential_stragglers(num_candidates=g.get("k", 2)), sym)
        elif name == "profiler_steps":
            out[key] = _call(lambda: ta.get_profiler_steps(), sym)
        elif name == "kernels_with_annotations":
            def f():
                df = ta.get_gpu_kernels_with_user_annotations(rk[0], expand_names=g.get("expand", True),
                                                              shortern_names=g.get("short", True))
                if df is None:
                    return None
                keep = [c for c in ("index", "ts", "dur", "stream", "name", "user_annotation", "s_name",
                                    "s_user_annotation") if c in df.columns]
                return df[keep].reset_index(drop=True)
            out[key] = _call(f, sym)
        elif name == "user_annotation_breakdown":
            out[key] = _call(lambda: ta.get_gpu_user_annotation_breakdown(
                use_gpu_annotation=g.get("gpu", True), visualize=False), sym)
        elif name == "frequent_sequences":
            def f2():
                od = os.path.join(state.world_dir, g.get("out", "seq_out"))
                os.makedirs(od, exist_ok=True)
                return ta.get_frequent_cuda_kernel_sequences(
                    operator_name=g["operator"], output_dir=od, min_pattern_len=g.get("min_len", 1),
                    rank=rk[0], top_k=g.get("top_k", 5), visualize=False)
            out[key] = _call(f2, sym)
        elif name == "call_graph":
            def f3():
                from hta.common.trace_call_graph import CallGraph
                CallGraph(t, ranks=rk)
                df = t.get_trace(rk[0])
                cols = [c for c in ("index", "parent", "depth", "height", "num_kernels", "kernel_dur_sum",
                                    "kernel_span", "first_kernel_start", "last_kernel_end") if c in df.columns]
                return df[cols].reset_index(drop=True)
            out[key] = _call(f3, sym)
        elif name == "trace_diff":
            def f4():
                from hta.trace_diff import DeviceType, TraceDiff
                dt = {"cpu": DeviceType.CPU, "gpu": DeviceType.GPU, "all": DeviceType.ALL}[g.get("device", "all")]
                return TraceDiff.compare_traces(state.world_dir, state.world_dir, device_type=dt,
                                                use_short_name=g.get("short", False))
            out[key] = _call(f4, sym)
        elif name == "critical_path":
            def f5():
                res = ta.critical_path_analysis(rank=rk[0], annotation=g.get("annotation", "ProfilerStep"),
                                                instance_id=g.get("instance", 0))
                if res is None:
                    return None
                cp, ok = res
                bd = cp.get_critical_path_breakdown()
                total = sum(cp.edges[u, v]["weight"] for u, v in zip(cp.critical_path_nodes, cp.critical_path_nodes[1:]))
                if bd is not None:
                    bd = bd[[c for c in ("event_idx", "duration", "type", "s_name", "pid", "tid", "stream", "bound_by")
                             if c in bd.columns]]
                return {"ok": bool(ok), "n_nodes": cp.number_of_nodes(), "n_edges": cp.number_of_edges(),
                        "total": total, "breakdown": bd, "summary": cp.summary()}
            out[key] = _call(f5, sym)
        else:
            raise simenv_error(f"unknown getter {name}")
    return {"results": out}


def simenv_error(msg: str) -> Exception:
    from .simpool import SimHarnessError
    return SimHarnessError(msg)


# -- call-graph histories (C13, C16) ------------------------------------------------------------
def _stack_frame(state: State, rank: int) -> Dict[str, Any]:
    from .canon import frame_rows
    from .session import LOADER_COLS, STACK_COLS
    t = state.trace
    df = t.get_trace(rank)
    sym = list(t.symbol_table.get_sym_table())
    return {"rows": frame_rows(df, LOADER_COLS + STACK_COLS, sym),
            "dtypes": {c: str(df[c].dtype) for c in STACK_COLS if c in df.columns}}


@op("callgraph")
def op_callgraph(state: State, a: Dict[str, Any], env: simenv.SimEnv) -> Any:
    from hta.common.trace_call_graph import CallGraph
    ranks = a.get("ranks")
    cg = CallGraph(state.trace, ranks=ranks)
    state.misc["cg"] = cg
    out: Dict[str, Any] = {"ranks": {}, "built_ranks": [int(r) for r in cg.ranks]}
    for r in cg.ranks:
        out["ranks"][str(int(r))] = _stack_frame(state, int(r))
    # CallGraph.get_stack_of_node for a few seeded nodes of every built rank (rank passed explicitly)
    probes = []
    for r in cg.ranks:
        df = state.trace.get_trace(int(r))
        ids = [int(x) for x in df["index"].tolist()]
        for pick in a.get("probe_nodes") or []:
            if not ids:
                break
            idx = ids[int(pick) % len(ids)]
            for skip in (False, True):
                try:
                    st = cg.get_stack_of_node(idx, rank=int(r), skip_ancestors=skip)
                    probes.append({"rank": int(r), "node": idx, "skip_ancestors": skip,
                                   "ids": sorted(int(x) for x in st["index"].tolist())})
                except Exception as exc:  # noqa: BLE001
                    if type(exc).__name__ in ("SimDeadlock", "SimHarnessError"):
                        raise
                    probes.append({"rank": int(r), "node": idx, "skip_ancestors": skip, "exc": type(exc).__name__})
    out["stack_probes"] = probes
    mp = cg.mapping
    out["mapping"] = [[canon_value(x) for x in row] for row in mp[["rank", "pid", "tid", "label", "stack_root"]].values.tolist()]
    return out


@op("freq_seq")
def op_freq_seq(state: State, a: Dict[str, Any], env: simenv.SimEnv) -> Any:
    od = os.path.join(state.world_dir, a.get("out", "seq_out"))
    os.makedirs(od, exist_ok=True)
    rank = int(a.get("rank", 0))
    df = state.ta.get_frequent_cuda_kernel_sequences(
        operator_name=a["operator"], output_dir=od, min_pattern_len=int(a.get("min_len", 3)), rank=rank,
        top_k=int(a.get("top_k", 5)), visualize=False, compress_other_kernels=bool(a.get("compress", True)))
    rows = []
    if df is not None and len(df):
        for rec in df.to_dict("records"):
            rows.append({str(k): canon_value(v) for k, v in rec.items()})
    out = {"rows": rows, "columns": [str(c) for c in (df.columns if df is not None else [])]}
    if rank in state.trace.traces:
        out["frame"] = _stack_frame(state, rank)
    return out


@op("annotate_kernels")
def op_annotate_kernels(state: State, a: Dict[str, Any], env: simenv.SimEnv) -> Any:
    df = state.ta.get_gpu_kernels_with_user_annotations(int(a["rank"]), expand_names=bool(a.get("expand", True)),
                                                        shortern_names=bool(a.get("short", True)))
    return {"n": None if df is None else int(len(df))}


@op("decode_ids")
def op_decode_ids(state: State, a: Dict[str, Any], env: simenv.SimEnv) -> Any:
    state.trace.decode_symbol_ids(use_shorten_name=bool(a.get("short", True)))
    return {}
