"""Batch runner: seeded search over plans (worlds x histories x schedules x environments x
faults) on all cores, oracle evaluation, violation grouping, replay files, evidence."""
from __future__ import annotations

import concurrent.futures as cf
import faulthandler
import fnmatch
import hashlib
import json
import multiprocessing
import os
import sys
import time
import traceback
from typing import Any, Callable, Dict, List, Optional, Tuple

from . import driver
from .prng import Rng

VERIF_DIR = driver.VERIF_DIR
KNOWN_FILE = os.path.join(VERIF_DIR, "known_findings.txt")
REPLAY_DIR = os.path.join(VERIF_DIR, "replays")
EVIDENCE_DIR = os.path.join(VERIF_DIR, "evidence")

_HOST_INFO: Optional[Dict[str, Any]] = None
_SPEC: Optional[Dict[str, Any]] = None


def run_seed(seed: int, check_id: str, batch: str, run: int) -> Rng:
    return Rng(seed).fork(f"{check_id}/{batch}/{run}")


def make_plan(spec: Dict[str, Any], seed: int, batch: Dict[str, Any], run: int, tier: str) -> Dict[str, Any]:
    slots = batch.get("slots")
    if slots:
        # enumeration batch: `slots` consecutive runs share one base plan, slot j gets the j-th fault point
        rng = run_seed(seed, spec["stream"], batch["name"], run // slots)
        plan = spec["profile"].gen_plan(rng, tier, **dict(batch.get("args", {}), base=run // slots))
        plan.setdefault("enumerate", {})["slot"] = run % slots
        plan["enumerate"]["base"] = run // slots
    else:
        rng = run_seed(seed, spec["stream"], batch["name"], run)
        plan = spec["profile"].gen_plan(rng, tier, **batch.get("args", {}))
    plan["check"] = spec["id"]
    plan["hash_seeds"] = list(driver.HASH_SEEDS)
    plan["seed"] = seed
    plan["batch"] = batch["name"]
    plan["run"] = run
    return plan


def _one_run(args: Tuple[int, str, int, str]) -> Dict[str, Any]:
    seed, batch_name, run, tier = args
    spec = _SPEC
    assert spec is not None and _HOST_INFO is not None
    batch = next(b for b in spec["batches"] if b["name"] == batch_name)
    t0 = time.time()
    try:
        plan = make_plan(spec, seed, batch, run, tier)
        enum_info = None
        if plan.get("enumerate"):
            from . import enumerate as enum
            en = plan["enumerate"]
            dry = driver.execute_plan(_HOST_INFO, {k: v for k, v in plan.items() if k != "enumerate"})
            pts = enum.expand(enum.fault_points(dry, en["target"]), en["kinds"])
            n_slots = batch.get("slots", 1)
            if len(pts) > n_slots > 1:
                # more points than slots (json.dump writes a plain .json token by token): the points on opens and
                # on directory entries are few and all kept (at most half of the slots); the read / write calls
                # get an evenly spaced sample that includes the first and the last one
                rare = [pk for pk in pts if pk[0].get("type") in ("open", "fsop", "alloc")][: n_slots // 2]
                io = [pk for pk in pts if pk[0].get("type") not in ("open", "fsop", "alloc")]
                room = n_slots - len(rare)
                if len(io) > room > 1:
                    io = [io[j * (len(io) - 1) // (room - 1)] for j in range(room)]
                pts = rare + io[:room]
                sampled = True
            else:
                sampled = False
            enum_info = {"base": en["base"], "slot": en["slot"], "points": len(pts), "executed": en["slot"] < len(pts),
                         "sampled": sampled}
            if en["slot"] < len(pts):
                point, kind = pts[en["slot"]]
                plan = enum.with_fault(plan, en["target"], point, kind)
                ex = driver.execute_plan(_HOST_INFO, plan)
            else:
                plan = {k: v for k, v in plan.items() if k != "enumerate"}
                ex = dry
        else:
            ex = driver.execute_plan(_HOST_INFO, plan)
        retried = False
        if any(sx["status"] == "timeout" for sx in ex["sessions"]):
            # wall-clock kill switch hit (machine overloaded?): a run is a pure function of its plan,
            # so executing it once more is legitimate; a second timeout is reported as a harness problem
            retried = True
            ex = driver.execute_plan(_HOST_INFO, plan)
        res = spec["profile"].check(plan, ex, set(spec["props"]))
        if retried:
            res.probe("run_retried_after_timeout")
        res.harness = [f"{batch_name}/{run}: {h}" for h in res.harness]
        n_ops = sum(len(s["ops"]) for s in plan["sessions"])
        stats = {"sched_steps": 0, "choices": 0, "clock_s": 0.0}
        faults_cfg: Dict[str, int] = {}
        for s in plan["sessions"]:
            for f in s.get("pre", []):
                faults_cfg[f["kind"]] = faults_cfg.get(f["kind"], 0) + 1
            for f in s.get("env", {}).get("faults", []):
                faults_cfg[f["kind"]] = faults_cfg.get(f["kind"], 0) + 1
            for o in s["ops"]:
                if o.get("kill_after"):
                    faults_cfg["kill_after_op"] = faults_cfg.get("kill_after_op", 0) + 1
        schedules = []
        for sx in ex["sessions"]:
            for ev in sx["events"]:
                if ev.get("ev") == "session_end":
                    st = ev.get("stats", {})
                    stats["sched_steps"] += st.get("sched_steps", 0)
                    stats["choices"] += st.get("choices", 0)
                    stats["clock_s"] += float(st.get("clock_s", 0.0))
                elif ev.get("ev") == "schedule":
                    schedules.append(ev["digest"])
        return {
            "run": run, "batch": batch_name, "digest": ex["digest"], "violations": res.violations,
            "probes": res.probes, "states": sorted(json.dumps(s) for s in res.states), "evals": res.oracle_evals,
            "nontrivial": res.nontrivial and (enum_info is None or enum_info["executed"]), "harness": res.harness, "sessions": len(plan["sessions"]),
            "ops": n_ops, "stats": stats, "faults_cfg": faults_cfg, "schedules": schedules,
            "wall": time.time() - t0,
            "sample": _sample_of(plan) if run < 2 else None,
            "enum": enum_info,
            # the concrete plan (with the enumerated fault) is needed to build a replay file
            "plan": plan if (res.violations and enum_info) else None,
        }
    except Exception as exc:  # noqa: BLE001
        return {"run": run, "batch": batch_name, "digest": None, "violations": [], "probes": {}, "states": [],
                "evals": 0, "nontrivial": False,
                "harness": [f"driver exception {type(exc).__name__}: {exc}\n{traceback.format_exc()[-1200:]}"],
                "sessions": 0, "ops": 0, "stats": {"sched_steps": 0, "choices": 0}, "faults_cfg": {},
                "schedules": [], "wall": time.time() - t0, "sample": None}


def _sample_of(plan: Dict[str, Any]) -> Dict[str, Any]:
    """A readable abstract of a plan for the evidence file."""
    w = plan["world"]
    return {
        "run": plan.get("run"), "batch": plan.get("batch"),
        "world": {"knobs": w["knobs"],
                  "files": [{"name": f["name"], "rank": f.get("rank"), "entries": len(f["doc"]["traceEvents"]),
                             "first_entries": f["doc"]["traceEvents"][:3]} for f in w["files"][:3]]},
        "sessions": [{"zygote_hashseed": driver.HASH_SEEDS[s.get("zygote", 0) % len(driver.HASH_SEEDS)],
                      "env": {k: v for k, v in s.get("env", {}).items() if k not in ("tapes",)},
                      "tape0": (s.get("env", {}).get("tapes") or [[]])[0][:12],
                      "pre": s.get("pre", []), "ops": s["ops"]} for s in plan["sessions"]],
    }


def _init_worker(info: Dict[str, Any], spec_id: str) -> None:
    global _HOST_INFO, _SPEC
    from . import checks
    _HOST_INFO = info
    _SPEC = checks.get_spec(spec_id)
    faulthandler.enable()


def load_known() -> List[Dict[str, str]]:
    out = []
    if not os.path.exists(KNOWN_FILE):
        return out
    for line in open(KNOWN_FILE):
        line = line.strip()
        if not line or line.startswith("#"):
            continue
        kind, _, rest = line.partition(":")
        kind = kind.strip()
        if kind not in ("known", "fixed"):
            continue
        fields = rest.strip().split()
        rec = {"kind": kind, "text": rest.strip(), "property": "", "sig": ""}
        for f in fields:
            if f.startswith("property="):
                rec["property"] = f[len("property="):]
            elif f.startswith("sig="):
                rec["sig"] = f[len("sig="):]
        out.append(rec)
    return out


def known_match(known: List[Dict[str, str]], prop: str, sig: str) -> Optional[Dict[str, str]]:
    for k in known:
        if k["kind"] == "known" and k["property"] == prop and k["sig"] and fnmatch.fnmatchcase(sig, k["sig"]):
            return k
    return None


def run_check(spec: Dict[str, Any], tier: str, seed: int, jobs: int, max_wall: float,
              host: Optional[driver.SimHost] = None, write_evidence: bool = True,
              runs_override: Optional[int] = None, quiet: bool = False) -> int:
    """Returns the exit code: 0 held, 1 violation, 2 could not decide."""
    t_start = time.time()
    own_host = host is None
    if own_host:
        host = driver.SimHost(debug=bool(os.environ.get("VERIF_DEBUG")))
        host.start()
    results: List[Dict[str, Any]] = []
    truncated = False
    try:
        info = host.info()
        tasks: List[Tuple[int, str, int, str]] = []
        for b in spec["batches"]:
            n = b["runs"][tier]
            if runs_override is not None and n > 0:
                n = max(1, int(runs_override * n / max(1, sum(x["runs"][tier] for x in spec["batches"]))))
            for r in range(n):
                tasks.append((seed, b["name"], r, tier))
        ctx = multiprocessing.get_context("fork")
        with cf.ProcessPoolExecutor(max_workers=jobs, mp_context=ctx, initializer=_init_worker,
                                    initargs=(info, spec["id"])) as pool:
            futs = [pool.submit(_one_run, t) for t in tasks]
            for f in futs:
                left = max_wall - (time.time() - t_start)
                try:
                    results.append(f.result(timeout=max(1.0, left)))
                except cf.TimeoutError:
                    truncated = True
                    for g in futs:
                        g.cancel()
                    break
                except Exception as exc:  # noqa: BLE001
                    results.append({"run": -1, "batch": "?", "digest": None, "violations": [], "probes": {},
                                    "states": [], "evals": 0, "nontrivial": False,
                                    "harness": [f"worker failed: {type(exc).__name__}: {exc}"], "sessions": 0,
                                    "ops": 0, "stats": {"sched_steps": 0, "choices": 0}, "faults_cfg": {},
                                    "schedules": [], "wall": 0.0, "sample": None})
        exit_code = _report(spec, tier, seed, jobs, results, truncated, time.time() - t_start, host,
                            write_evidence, quiet, len(tasks))
    finally:
        if own_host:
            host.stop()
    return exit_code


def _report(spec: Dict[str, Any], tier: str, seed: int, jobs: int, results: List[Dict[str, Any]],
            truncated: bool, wall: float, host: driver.SimHost, write_evidence: bool, quiet: bool,
            n_tasks: int) -> int:
    from . import replay as replay_mod
    prop = spec["id"]
    known = load_known()
    harness = [h for r in results for h in r["harness"]]
    probes: Dict[str, int] = {}
    faults_cfg: Dict[str, int] = {}
    states = set()
    schedules = set()
    digests_nontrivial = set()
    evals = 0
    sched_steps = choices = sessions = ops = 0
    clock_s = 0.0
    for r in results:
        for k, v in r["probes"].items():
            probes[k] = probes.get(k, 0) + v
        for k, v in r["faults_cfg"].items():
            faults_cfg[k] = faults_cfg.get(k, 0) + v
        states.update(r["states"])
        schedules.update(r["schedules"])
        evals += r["evals"]
        sched_steps += r["stats"]["sched_steps"]
        choices += r["stats"]["choices"]
        clock_s += r["stats"].get("clock_s", 0.0)
        sessions += r["sessions"]
        ops += r["ops"]
        if r["nontrivial"] and r["digest"]:
            digests_nontrivial.add(r["digest"])
    # group violations of this property by signature; lowest run index is the witness
    groups: Dict[str, Dict[str, Any]] = {}
    other_props: Dict[str, int] = {}
    for r in sorted(results, key=lambda x: (x["batch"], x["run"])):
        for v in r["violations"]:
            if v["property"] != prop:
                other_props[v["property"]] = other_props.get(v["property"], 0) + 1
                continue
            g = groups.setdefault(v["sig"], {"v": v, "run": r["run"], "batch": r["batch"], "runs": 0,
                                             "plan": r.get("plan")})
            g["runs"] += 1
    new_violations = []
    known_lines = []
    for sig, g in sorted(groups.items()):
        k = known_match(known, prop, sig)
        if k is not None:
            known_lines.append(f"KNOWN-FINDING: property={prop} sig={sig} runs={g['runs']} {k['text']}")
        else:
            new_violations.append((sig, g))
    out_lines: List[str] = []
    replay_paths = []
    for sig, g in new_violations[:6]:
        batch = next(b for b in spec["batches"] if b["name"] == g["batch"])
        plan = g.get("plan") or make_plan(spec, seed, batch, g["run"], tier)
        try:
            path = replay_mod.minimise_and_save(spec, plan, sig, host, budget_s=float(os.environ.get("VERIF_SHRINK_S", "90")))
        except Exception as exc:  # noqa: BLE001
            path = replay_mod.save_replay(spec, plan, sig, g["v"], note=f"shrink failed: {exc}")
        replay_paths.append(path)
        out_lines.append(f"VIOLATION property={prop} replay={path}")
        out_lines.append(f"  signature={sig} first_run={g['batch']}/{g['run']} runs_with_it={g['runs']} detail={json.dumps(g['v']['detail'], default=str)[:400]}")
    for sig, g in new_violations[6:]:
        out_lines.append(f"VIOLATION property={prop} replay={replay_paths[0] if replay_paths else 'none'} (also: signature={sig})")
    enum_bases: Dict[Any, Dict[str, Any]] = {}
    for r in results:
        e = r.get("enum")
        if e:
            b = enum_bases.setdefault((r["batch"], e["base"]), {"points": e["points"], "executed": 0, "slots": 0,
                                                                "sampled": e.get("sampled", False)})
            b["slots"] += 1
            b["executed"] += 1 if e["executed"] else 0
    enum_cov = None
    if enum_bases:
        enum_cov = {"base_plans": len(enum_bases),
                    "fault_points_total": sum(b["points"] for b in enum_bases.values()),
                    "fault_points_executed": sum(b["executed"] for b in enum_bases.values()),
                    "base_plans_fully_enumerated": sum(1 for b in enum_bases.values() if b["executed"] >= b["points"] and not b["sampled"]),
                    "base_plans_sampled": sum(1 for b in enum_bases.values() if b["sampled"]),
                    "note": "a base plan is fully enumerated when every (file, open, call) x kind point of its target operation was executed once"}
    n_done = len(results)
    per_hour = n_done / wall * 3600 if wall > 0 else 0.0
    fired = {k[len("fault:"):]: v for k, v in probes.items() if k.startswith("fault:")}
    samples = [r["sample"] for r in results if r.get("sample")][:3]
    ev = {
        "property_id": prop, "tier": tier, "seed": seed, "level": spec["level"],
        "coverage": {
            "evaluations": n_done,
            "distinct_nontrivial": len(digests_nontrivial),
            "rule": spec["rule"],
            "samples": samples if samples else [{"note": "no sample recorded"}],
            "simulated_runs": n_done, "runs_planned": n_tasks, "sessions": sessions, "operations": ops,
            "oracle_comparisons": evals,
            "runs_per_hour": round(per_hour, 1), "seeds_per_hour": round(per_hour, 1),
            "simulated_time_s": round(clock_s, 1),
            "simulated_time_note": ("sum over sessions of the movement of the simulated wall clock (time.time seam: seeded jumps of "
                                    "-5400 s .. +3600 s at operation boundaries, backward ones counted by the probe clock_jumped_back; sessions of "
                                    "one world start 30 s .. 40 days after - or 4000 s before - the previous one; file modification times follow "
                                    "this clock). HTA has no timers, deadlines or sleeps: on the unchanged tree the clock only reaches gzip "
                                    "headers and file times; progress is counted in operations and scheduler steps"),
            "scheduler_steps": sched_steps, "scheduler_choices": choices,
            "faults_configured": faults_cfg, "faults_fired": fired,
            "distinct_pool_schedules": len(schedules),
            "distinct_session_states": len(states),
            "probes": {k: v for k, v in sorted(probes.items()) if not k.startswith("fault:")},
            "probes_at_zero": [p for p in spec.get("expected_probes", []) if probes.get(p, 0) == 0],
            "hash_seeds": driver.HASH_SEEDS, "jobs": jobs, "truncated_by_wall_clock": truncated,
            "components_real": ["hta (working tree /repo)", "pandas", "numpy", "networkx", "json", "gzip", "zipfile",
                                "pickle", "os.fork (pool workers, session children)", "files on tmpfs"],
            "components_stubbed": ["multiprocessing.Pool/Manager objects (SimPool: real forked workers, lock-step)",
                                   "cpu_count", "psutil.virtual_memory", "tracemalloc", "os.listdir order",
                                   "time.time / time.time_ns (simulated wall clock, model 2: backward jumps, per-session start times)",
                                   "file modification times (stamped from the simulated clock when a file written through the file seam is closed)",
                                   "concurrent.futures.ThreadPoolExecutor / multiprocessing.pool.ThreadPool / threading.Thread / threading.Lock, RLock "
                                   "(real threads under a baton, pre-empted at lock operations and tape-chosen source lines of hta; unused by the unchanged tree)",
                                   "concurrent.futures.ProcessPoolExecutor, as_completed, wait (lock-step workers, completion order from the tape)",
                                   "garbage-collector schedule (automatic collection off, full collection at operation boundaries)",
                                   "plotting (visualize=False)"],
            "violations_of_other_properties_seen": other_props,
            "known_findings_reported": len(known_lines),
            "fault_point_enumeration": enum_cov,
        },
        "assumptions": spec["assumptions"],
        "wall_s": round(wall, 2),
        "violations": len(new_violations),
    }
    if write_evidence:
        os.makedirs(EVIDENCE_DIR, exist_ok=True)
        with open(os.path.join(EVIDENCE_DIR, f"{prop}.json"), "w") as fh:
            json.dump(ev, fh, indent=1, sort_keys=True, default=str)
    if not quiet:
        print(f"[{prop}] tier={tier} seed={seed} runs={n_done}/{n_tasks} sessions={sessions} ops={ops} "
              f"comparisons={evals} distinct_nontrivial={len(digests_nontrivial)} schedules={len(schedules)} "
              f"states={len(states)} wall={wall:.1f}s ({per_hour:.0f} runs/h)")
        print(f"[{prop}] faults fired: {fired}  configured: {faults_cfg}")
        zero = ev["coverage"]["probes_at_zero"]
        if zero:
            print(f"[{prop}] WARNING probes at zero: {zero}")
        for ln in known_lines:
            print(ln)
        for ln in out_lines:
            print(ln)
    if harness:
        print(f"[{prop}] HARNESS PROBLEM ({len(harness)}): {harness[0][:600]}")
    if new_violations:
        # a violation is a counterexample whatever happened in other runs (a tree that makes the tool hang in some
        # runs and misbehave in others is reported for the misbehaviour)
        return 1
    if harness:
        return 2
    if truncated and n_done < max(2, n_tasks // 4):
        print(f"[{prop}] CANNOT DECIDE: wall-clock limit hit after {n_done}/{n_tasks} runs")
        return 2
    if not digests_nontrivial or len(digests_nontrivial) < 2:
        print(f"[{prop}] CANNOT DECIDE: no oracle was evaluated on a non-empty observable")
        return 2
    if spec.get("precondition_probe") and probes.get(spec["precondition_probe"], 0) == 0:
        print(f"[{prop}] CANNOT DECIDE: precondition never met ({spec['precondition_probe']})")
        return 2
    print(f"[{prop}] OK")
    return 0
