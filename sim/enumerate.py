"""Fault-point enumeration (DESIGN.md 4.4): for one target operation of a plan, a fault-free
dry run records every read / write call the operation makes on every file; slot j of the
batch then re-executes the plan with one fault placed at the j-th (point, kind) pair.  All
points of a base plan are covered when the batch has at least as many slots as points."""
from __future__ import annotations

import copy
from typing import Any, Dict, List, Tuple

from . import driver


def fault_points(execution: Dict[str, Any], target: Dict[str, Any]) -> List[Dict[str, Any]]:
    """Every (file, open number, call number) the target operation touched, in log order."""
    si, oi, mode = target["session"], target["op"], target["mode"]
    if si >= len(execution["sessions"]):
        return []
    pts: List[Dict[str, Any]] = []
    for ev in execution["sessions"][si]["events"]:
        if ev.get("ev") != "file_close" or ev.get("i") != oi or ev.get("mode") != mode:
            continue
        n = ev.get("writes" if mode == "w" else "reads", 0)
        # the open number of this handle: the file_open event with the same path that precedes it
        open_k = None
        for ev2 in execution["sessions"][si]["events"]:
            if ev2 is ev:
                break
            if ev2.get("ev") == "file_open" and ev2.get("path") == ev.get("path") and ev2.get("mode") == mode \
                    and ev2.get("w") == ev.get("w"):
                open_k = ev2.get("open_k")
        for call in range(n):
            pts.append({"path": ev["path"], "open_k": open_k, "call": call})
    # every open the operation made (a denied open) and every operation on a directory entry (rename, replace,
    # remove, makedirs ...: it may fail, or the process may die just before / just after it)
    for ev in execution["sessions"][si]["events"]:
        if ev.get("i") != oi or ev.get("w") is not None:
            continue
        if ev.get("ev") == "file_open" and (mode == "r" or ev.get("mode") == "w"):
            # (for a writer only its opens for writing: the reads of that operation are the harness reading back)
            pts.append({"type": "open", "path": ev["path"], "open_k": ev.get("open_k"), "cls": ev.get("mode")})
        elif ev.get("ev") == "fs_op":
            pts.append({"type": "fsop", "path": ev["path"], "fsop": ev["fsop"], "call": ev.get("call")})
        elif ev.get("ev") == "alloc_site" and (("dump" in ev.get("site", "")) == (mode == "w")):
            # (a writer's own allocation sites are the serialising ones; parsing calls inside a writer's operation are
            # the harness reading the result back through the tool's reader)
            pts.append({"type": "alloc", "path": "@alloc", "site": ev["site"], "call": ev.get("call")})
    return pts


def expand(points: List[Dict[str, Any]], kinds: List[str]) -> List[Tuple[Dict[str, Any], str]]:
    out: List[Tuple[Dict[str, Any], str]] = []
    for p in points:
        if p.get("type") == "open":
            out.append((p, "open_eacces"))
        elif p.get("type") == "fsop":
            out.extend((p, k) for k in ("fsop_fail", "kill_before_fsop", "kill_after_fsop"))
            if p.get("fsop") in ("replace", "rename", "move"):
                out.append((p, "fsop_exdev"))   # source and destination on different file systems
        elif p.get("type") == "alloc":
            out.append((p, "alloc_fail"))
        else:
            out.extend((p, k) for k in kinds)
    return out


def with_fault(plan: Dict[str, Any], target: Dict[str, Any], point: Dict[str, Any], kind: str) -> Dict[str, Any]:
    p2 = copy.deepcopy(plan)
    p2.pop("enumerate", None)
    sess = p2["sessions"][target["session"]]
    if point.get("type") == "open":
        fault = {"kind": kind, "path": point["path"], "open_k": point["open_k"], "cls": point["cls"], "op": target["op"]}
    elif point.get("type") == "fsop":
        fault = {"kind": kind, "path": point["path"], "fsop": point["fsop"], "call": point["call"], "op": target["op"]}
        if kind == "fsop_exdev":
            fault.update(kind="fsop_fail", errno="EXDEV")
    elif point.get("type") == "alloc":
        fault = {"kind": kind, "path": "@alloc", "site": point["site"], "call": point["call"], "op": target["op"]}
    else:
        fault = {"kind": kind, "path": point["path"], "open_k": point["open_k"], "call": point["call"], "op": target["op"]}
    sess.setdefault("env", {}).setdefault("faults", []).append(fault)
    p2["enumerated_fault"] = {"target": target, "point": point, "kind": kind}
    return p2
