"""SplitMix64 PRNG. One integer decides everything: every stream used by a run is
derived from VERIF_SEED by labelled forks (labels are hashed with SHA-256, never with
Python's randomised hash())."""
from __future__ import annotations

import hashlib
from typing import Any, List, Sequence

MASK = (1 << 64) - 1


def _mix(z: int) -> int:
    z = (z + 0x9E3779B97F4A7C15) & MASK
    z = ((z ^ (z >> 30)) * 0xBF58476D1CE4E5B9) & MASK
    z = ((z ^ (z >> 27)) * 0x94D049BB133111EB) & MASK
    return z ^ (z >> 31)


def label_hash(label: str) -> int:
    return int.from_bytes(hashlib.sha256(label.encode()).digest()[:8], "big")


class Rng:
    def __init__(self, seed: int) -> None:
        self.state = seed & MASK

    def next64(self) -> int:
        self.state = (self.state + 0x9E3779B97F4A7C15) & MASK
        z = self.state
        z = ((z ^ (z >> 30)) * 0xBF58476D1CE4E5B9) & MASK
        z = ((z ^ (z >> 27)) * 0x94D049BB133111EB) & MASK
        return z ^ (z >> 31)

    def fork(self, label: Any) -> "Rng":
        """A new independent stream; does not advance this one."""
        return Rng(_mix(self.state ^ label_hash(str(label))))

    def below(self, n: int) -> int:
        if n <= 0:
            raise ValueError("below(n) needs n > 0")
        # rejection sampling for exact uniformity
        lim = (1 << 64) - ((1 << 64) % n)
        while True:
            x = self.next64()
            if x < lim:
                return x % n

    def randint(self, lo: int, hi: int) -> int:
        """inclusive"""
        return lo + self.below(hi - lo + 1)

    def random(self) -> float:
        return (self.next64() >> 11) / float(1 << 53)

    def chance(self, p: float) -> bool:
        return self.random() < p

    def choice(self, seq: Sequence[Any]) -> Any:
        return seq[self.below(len(seq))]

    def weighted(self, pairs: Sequence[tuple]) -> Any:
        """pairs of (value, integer weight)"""
        total = sum(w for _, w in pairs)
        x = self.below(total)
        for v, w in pairs:
            if x < w:
                return v
            x -= w
        raise AssertionError

    def shuffle(self, lst: List[Any]) -> None:
        for i in range(len(lst) - 1, 0, -1):
            j = self.below(i + 1)
            lst[i], lst[j] = lst[j], lst[i]

    def sample(self, seq: Sequence[Any], k: int) -> List[Any]:
        lst = list(seq)
        self.shuffle(lst)
        return lst[:k]

    def perm(self, n: int) -> List[int]:
        lst = list(range(n))
        self.shuffle(lst)
        return lst
