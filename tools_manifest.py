"""Regenerates /verif/MANIFEST.json from the tables below and validates it against the schema."""
import json

import jsonschema

TECH = ("deterministic simulation with fault injection: seeded search over generated worlds x session histories x "
        "pool / thread schedules x environments (hash seed, cpu count, memory, simulated wall clock with backward jumps and simulated file times, env flags, logger level) x "
        "file faults, reference-model oracle, shrunk replay files")

TRUST = ("trusted base: the reference models in sim/refmodel.py and sim/profiles/*.py, the trace-world generator's "
         "well-formedness guarantees, SimPool's model of multiprocessing.Pool / Manager (submission-order map results, "
         "first-arrived exception, chunking rule, queue operations linearised at the parent), CPython / pandas / networkx "
         "themselves. Sampling, not enumeration; worker death is not simulated (the real pool hangs). Threads (none on the unchanged tree) are real threads under a baton, pre-empted at lock operations and sampled source lines of hta, not at every bytecode.")

CHECKS = {
    "C01": ("every row of every frame returned by every simulated load (parse-only, full, TraceAnalysis; dir / dict / list; pool on / off under a tape-driven schedule, pool size from cpu count and free memory; 1-3 interpreter lives with different hash seeds) is compared field by field with a reference loader over the bytes on disk: uniform shift, end == ts + dur, inward rounding, no spurious rows; under injected torn files / read errors (EIO and the transient errnos) / vanished / unreadable files / denied opens / refused process creation / flipped stored bytes / low memory a load may raise, but a load that returns - including the retry on the same object after a single-event fault - is held to the full oracle and a torn file must never appear as a frame",
            "DESIGN.md 6 C01", ""),
    "C02": ("on the same simulated loader runs the link column is checked as the session sees it (after pickling out of the pool worker and after the trailing-step trim) against the reference pairing: -1 without id, 0 when the partner is absent, mutual partner id otherwise, never same side / other id / trimmed row",
            "DESIGN.md 6 C02", ""),
    "C12": ("on the same simulated loader runs iteration numbers (host by step containment, device by link) and the exact set of rows surviving the trailing-step trim (both values of include_last_profiler_step, multi-rank global step test, after clock alignment) are compared with the reference; get_iterations / get_profiler_steps must agree with the column",
            "DESIGN.md 6 C12", " Iteration values of sync events on stream -1 are not checked (DESIGN.md scope note)."),
    "C11": ("(a) seeded histories of symbol-table operations against a list+dict model, add_symbols_mp on a lock-step fork pool whose tape interleaves the individual queue puts of the workers (exact expected id order reconstructed from the simulator log); (b) multi-rank loads through pool schedules / sequentially / parse_single_rank permutations must decode to each rank's file strings; (c) one world loaded and analysed by a battery of up to 18 public getters in 3-4 sessions differing only in PYTHONHASHSEED, pool on/off, cpu count and tape: canonicalised results must be equal",
            "DESIGN.md 6 C11", ""),
    "C09": ("histories on the user-visible mutable CPGraph: analysis, recompute, re-weight edges + recompute, deepcopy and continue on the copy, look at the original again; after every computation connectivity, maximal weight (independent topological DP), exact events / edges sets and the makespan bound are checked",
            "DESIGN.md 6 C09", " An analysis that raises or reports failure belongs to C08 (not claimed) and is counted, not evaluated."),
    "C19": ("save / restore cycles of length 1-4 where each restore runs in the same session, in a new interpreter under the same zygote, or in a new interpreter under another PYTHONHASHSEED (another symbol numbering); absolute / relative / reused out_dir; ENOSPC / EIO / kill inside writes of save, EIO inside reads of restore, kill right after save, plus enumeration batches that put one fault at every write call / open / directory-entry operation of a save and every read call / open of a restore of a base plan (also with members of an earlier version left in the extraction directory), plus a double-fault batch (failed re-save, then a flipped stored byte in a member of the surviving archive); every attribute of the restored graph, the recomputed total, breakdown and summary must equal the original's; file modification times and time.time follow the simulated clock (same-second re-saves, backward clock steps, lives days apart)",
            "DESIGN.md 6 C19", ""),
    "C13": ("session histories on the shared per-rank frame: CallGraph builds for one / all ranks, get_frequent_cuda_kernel_sequences, get_gpu_kernels_with_user_annotations, decode_symbol_ids and other getters in seeded order; after every build the eight stack columns are checked against the tree (parents of linked device activities, depth, height, kernel aggregates recomputed over descendants, backward-thread linking) and against the first build of the session (history independence); worlds cross the int8 / int16 widths (more than 127 events, operators with up to 300 kernels)",
            "DESIGN.md 6 C13", " The parent of a host event is taken from the tool (C03's subject)."),
    "C16": ("on the same histories every returned pattern table is recomputed from the tool's own tree for the same arguments (instances at the shallowest depth, kernels in start order, counts, CPU and GPU duration sums, row order) and the n-th call must equal the first call with the same arguments; ENOSPC / EIO inside the write of the overlay file",
            "DESIGN.md 6 C16", ""),
    "C20": ("files written by the tool (trace with counters, critical-path overlay, write_trace / read_trace between formats, update_trace_rank) are read back with the tool's own reader and by a new session that discovers the directory under a seeded listdir order; prefix preservation of every source event, only permitted edits, counters / flow entries only appended, critical markers == critical events, flow pairs per drawn edge on the right pid/tid, rank discovery; write faults, denied opens, failing or interrupted directory-entry operations and kills (the process exits at the fault point) inside every writer, followed by a recovery session that redoes the work with another source; the outside world replacing a source file while the session lives (modification time kept / older / simulated now), reload, write again",
            "DESIGN.md 6 C20", ""),
}

NOT_APPLICABLE = [
    ("C03", "both call-stack builders are pure functions of one thread's spans; no schedule, clock, fault, file or shared state between input and output"),
    ("C04", "pure interval arithmetic over ts/dur/stream/name, columns nothing writes after the load; only its schedule/numbering independence is simulable and that is C11's third clause (the getter runs in C11's env battery)"),
    ("C05", "pure sweep and group-by over immutable loaded columns with per-call parameters; no surface for a schedule or fault to act on (runs in C11's env battery)"),
    ("C06", "pure function of immutable loaded columns (ts, dur, stream, cat, index_correlation) and a per-call threshold (runs in C11's env battery)"),
    ("C07", "pure interval sweep over immutable loaded columns (runs in C11's env battery)"),
    ("C08", "graph construction is a pure function of a deep copy of the frame; the only seam is an env flag whose two values both satisfy every clause, so no surface-local change can break it"),
    ("C10", "pure attribution over the finished graph; its one persistence clause (restored breakdown equals original) belongs to C19 and is decided there"),
    ("C14", "both step functions are pure functions of immutable loaded columns; the counters file is exercised by the C20 workload for event preservation only"),
    ("C15", "one inner join on immutable loaded columns (runs in C11's env battery)"),
    ("C17", "pure aggregation of two loaded traces; the loader beneath it is decided by C01/C11 and its random default label is pinned, not explored"),
    ("C18", "algebraic laws (purity, idempotence, composition) of functions of a frame; nothing nondeterministic or stateful to simulate"),
]


def build(claimed):
    checks = []
    for pid in claimed:
        text, ref, extra = CHECKS[pid]
        checks.append({
            "property_id": pid,
            "quick_cmd": f"timeout 1700 /venv/bin/python -m sim.cli check {pid} --tier quick",
            "thorough_cmd": f"timeout 14400 /venv/bin/python -m sim.cli check {pid} --tier thorough",
            "evidence_file": f"/verif/evidence/{pid}.json",
            "replay_cmd_template": "/venv/bin/python -m sim.cli replay {path}",
            "engine": "sim",
            "level_claimed": {"category": "exploration", "text": text, "design_ref": ref},
            "level_note": TRUST + extra,
            "technique": TECH,
        })
    return {
        "version": 1,
        "setup_cmd": "/venv/bin/python -c \"import sys; sys.path.insert(0, '/repo'); import hta, pandas, networkx, psutil; sys.path.insert(0, '/verif'); import sim.cli\"",
        "notes": ("Deterministic simulation with fault injection (DESIGN.md). Exit codes of every check: 0 held on everything explored; "
                  "1 with VIOLATION lines; 2 harness could not decide (never 0). Genuine defects found and repaired are listed in "
                  "known_findings.txt as 'fixed:' entries with their /repo commits. Self-tests: python -m sim.cli selftest determinism|sensitivity."),
        "hooks": {
            "guard": "HTA_VERIF",
            "enable": "no source hooks: every seam is a module attribute of a library (multiprocessing, concurrent.futures, threading, queue, os, shutil, builtins, io, json, tempfile, psutil, tracemalloc, time) replaced by the harness - installed dormant by the zygote before hta is imported, activated inside the simulated session (DESIGN.md 4.2); the guard variable is reserved and unused",
            "baseline_off_cmd": "cd /repo && /venv/bin/python -m pytest -ra -q -p no:cacheprovider --timeout=900 --continue-on-collection-errors",
            "source_commits": [],
            "add_only": True,
        },
        "engines": [{
            "name": "sim", "path": "/verif/sim", "serves_properties": list(claimed),
            "kind_free_text": "seeded deterministic simulator of an HTA workspace: trace files on tmpfs + interpreter sessions forked from zygotes with fixed PYTHONHASHSEED + lock-step fork pool (SimPool) under a choice tape + fault-injecting file layer; reference-model oracles in the driver; plan shrinking and replay files",
        }],
        "checks": checks,
        "not_applicable": [{"property_id": p, "reason": r} for p, r in NOT_APPLICABLE],
    }


if __name__ == "__main__":
    import sys
    claimed = sys.argv[1].split(",")
    m = build(claimed)
    jsonschema.validate(m, json.load(open("/root/.vp/MANIFEST.schema.json")))
    json.dump(m, open("/verif/MANIFEST.json", "w"), indent=1)
    print("MANIFEST.json written and valid; claimed:", claimed)
