"""Evaluate a seeded change produced by a sub-agent and file it under /verif/seeded/<name>/.

usage: tools_seeded.py <property id> <name> <worktree with the change applied> <agent output dir> [check ids ...]

Confirms: the patch applies to /repo's HEAD, the demonstration fails with the change and
passes without it, the repository's stable tests still pass with it (from the agent's
after.xml, re-checked against BASELINE.json), then runs the named checks against the
changed tree (VERIF_REPO=<worktree>) and records which of them report a violation.
"""
import json
import os
import shutil
import subprocess
import sys
import tempfile
import time

PY = "/venv/bin/python"


def run(cmd, env=None, cwd=None, timeout=3000):
    e = dict(os.environ)
    if env:
        e.update(env)
    p = subprocess.run(cmd, env=e, cwd=cwd, capture_output=True, text=True, timeout=timeout)
    return p.returncode, p.stdout + p.stderr


def main():
    pid, name, wt, out = sys.argv[1:5]
    checks = sys.argv[5:] or [pid]
    meta = {"property": pid, "name": name, "evaluated_at": time.strftime("%Y-%m-%d %H:%M"), "ran": []}
    patch = os.path.join(out, "patch.diff")
    code, o = run(["git", "-C", "/repo", "apply", "--check", patch])
    meta["patch_applies_to_repo_head"] = code == 0
    meta["ran"].append("git -C /repo apply --check patch.diff")
    tmp = tempfile.mkdtemp(prefix="seeded-demo-")
    code_with, o_with = run([PY, os.path.join(out, "demo.py")], env={"PYTHONPATH": wt}, cwd=tmp, timeout=900)
    code_without, o_without = run([PY, os.path.join(out, "demo.py")], env={"PYTHONPATH": "/repo"}, cwd=tmp, timeout=900)
    shutil.rmtree(tmp, ignore_errors=True)
    meta["demo_exit_with_change"] = code_with
    meta["demo_exit_without_change"] = code_without
    meta["demo_tail_with_change"] = o_with.strip().splitlines()[-3:]
    meta["ran"].append("PYTHONPATH=<worktree> python demo.py (expect != 0); PYTHONPATH=/repo python demo.py (expect 0)")
    after = os.path.join(out, "after.xml")
    if os.path.exists(os.path.join(out, "after_rerun.xml")):
        after = os.path.join(out, "after_rerun.xml")   # the suite was re-run here on the changed worktree
        meta["ran"].append("cd <worktree> && PYTHONPATH=<worktree> python -m pytest ... --junitxml=after_rerun.xml (re-run here)")
    elif os.environ.get("SEEDED_RERUN_SUITE"):
        # do not trust the agent's junit: run the repository's suite on the changed worktree here
        after = os.path.join(out, "after_rerun.xml")
        run([PY, "-m", "pytest", "-q", "-p", "no:cacheprovider", "--timeout=900", "--continue-on-collection-errors",
             "--junitxml=" + after], env={"PYTHONPATH": wt}, cwd=wt, timeout=3000)
        meta["ran"].append("cd <worktree> && PYTHONPATH=<worktree> python -m pytest ... --junitxml=after_rerun.xml (re-run here)")
    if os.path.exists(after):
        code, o = run([PY, "/verif/tools_check_baseline.py", after])
        meta["stable_tests_still_pass"] = code == 0
        meta["baseline_line"] = o.strip().splitlines()[0] if o.strip() else ""
        lost = [ln.split("NO LONGER PASSING:")[1].strip() for ln in o.splitlines() if "NO LONGER PASSING:" in ln]
        if lost and all(t.startswith("tests.test_config.") for t in lost):
            # tests/test_config.py works on one shared config file: suites of several worktrees re-run at the same time
            # trip over each other there (a different test each time). Run that file alone on the changed worktree.
            c2, o2 = run([PY, "-m", "pytest", "-q", "-p", "no:cacheprovider", "tests/test_config.py"], env={"PYTHONPATH": wt}, cwd=wt, timeout=600)
            meta["test_config_alone"] = o2.strip().splitlines()[-1] if o2.strip() else ""
            meta["stable_tests_still_pass"] = c2 == 0
            meta["ran"].append("cd <worktree> && pytest tests/test_config.py alone (the parallel re-runs interfere through its shared config file): " + meta["test_config_alone"])
        meta["ran"].append("tools_check_baseline.py after.xml (agent's junit of the full suite with the change)")
    rep = tempfile.mkdtemp(prefix="seeded-replays-")
    results = {}
    for cid in checks:
        t0 = time.time()
        code, o = run([PY, "-m", "sim.cli", "check", cid, "--tier", "quick", "--no-evidence"],
                      env={"VERIF_REPO": wt, "VERIF_REPLAY_DIR": rep, "VERIF_SHRINK_S": "30"}, cwd="/verif")
        sigs = sorted({ln.split("signature=")[1].split()[0] for ln in o.splitlines() if "signature=" in ln})
        results[cid] = {"exit": code, "signatures": sigs[:8], "seconds": round(time.time() - t0, 1)}
        print(cid, "exit", code, sigs[:4])
    shutil.rmtree(rep, ignore_errors=True)
    meta["checks"] = results
    meta["caught_by"] = [c for c, r in results.items() if r["exit"] == 1]
    meta["ran"].append("VERIF_REPO=<worktree> python -m sim.cli check <id> --tier quick  for " + ", ".join(checks))
    notes = os.path.join(out, "notes.md")
    if os.path.exists(notes):
        txt = open(notes).read()
        meta["needs_to_manifest"] = "see notes.md"
    dest = os.path.join("/verif/seeded", name)
    os.makedirs(dest, exist_ok=True)
    for fn in ("patch.diff", "demo.py", "notes.md"):
        if os.path.exists(os.path.join(out, fn)):
            shutil.copy(os.path.join(out, fn), os.path.join(dest, fn))
    json.dump(meta, open(os.path.join(dest, "meta.json"), "w"), indent=1)
    ok = meta["patch_applies_to_repo_head"] and code_with != 0 and code_without == 0 and meta.get("stable_tests_still_pass", False)
    print("CONFIRMED" if ok else "NOT CONFIRMED", json.dumps({k: meta[k] for k in ("patch_applies_to_repo_head", "demo_exit_with_change", "demo_exit_without_change", "stable_tests_still_pass", "caught_by") if k in meta}))


if __name__ == "__main__":
    main()
