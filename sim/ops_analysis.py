"""operation handlers (registered on import)"""
