"""C20: trace files written by the tool preserve every source event.  Files are written in
one session and read back (a) by the harness's byte-level reader, (b) by the reader the
tool itself offers for that extension, (c) by a *new interpreter* that discovers the
directory under a seeded listdir order.  Fault batch: ENOSPC / EIO / kill inside the write
calls of every writer (including update_trace_rank's in-place rewrite)."""
from __future__ import annotations

import copy
import json
from typing import Any, Dict, List, Optional, Set, Tuple

from .. import driver, worldgen
from ..prng import Rng
from . import Result, loader
from .cp import gen_analyze

NAME = "files"
PROPERTIES = ["C20"]


def gen_plan_enum(rng: Rng, tier: str, base: int = 0) -> Dict[str, Any]:
    """Base plan of a fault-point enumeration over the write calls of one writer operation."""
    ov: Dict[str, Any] = {"always_args": True, "causal": True}
    if base % 4 in (0, 3):
        ov["ranks"] = rng.fork("nranks").choice([2, 2, 3])   # the copying writers get another source for the recovery session
    world = worldgen.gen_world(rng.fork("world"), "files", ov)
    files = world["files"]
    ranks = [f["rank"] for f in files]
    inc = rng.chance(0.5)
    ops: List[Dict[str, Any]] = [{"op": "load", "mode": "ta", "via": "dir", "include_last": inc}]
    # the writers take turns over the base plans of a batch (the quick tier has three of them)
    kind = ["update_rank", "counters", "overlay", "write"][base % 4]
    if kind == "counters":
        ops.append({"op": "gen_counters", "series": rng.choice([None, "queue", "both"]), "ranks": [ranks[0]],
                    "suffix": rng.choice([None, "_c2"])})
    elif kind == "overlay":
        a = gen_analyze(rng, world, inc)
        ops.append(a)
        ops.append({"op": "cp_overlay", "graph": 0, "rank": a["rank"], "out_dir": "overlay",
                    "only_critical": rng.chance(0.4), "all_edges": rng.chance(0.5)})
    elif kind == "write":
        src = rng.choice(files)
        ops.append({"op": "write_trace", "src": src["name"], "dst": f"out/copy_{src['rank']}" + rng.choice([".json", ".json.gz"])})
    else:
        src = rng.choice(files)
        dst = f"out/rk_{src['rank']}" + rng.choice([".json", ".json.gz"])
        ops.append({"op": "write_trace", "src": src["name"], "dst": dst})
        ops.append({"op": "update_rank", "path": dst, "rank": rng.choice([0, 1, 7, 10, 63])})
    target = {"session": 0, "op": len(ops) - 1, "mode": "w"}
    ops.append({"op": "disk", "docs": False})
    sess_a = {"zygote": rng.below(len(driver.HASH_SEEDS)), "env": loader.gen_env(rng.fork("ea"), len(files), False),
              "pre": [], "ops": ops}
    sessions = [sess_a]
    if kind in ("update_rank", "write") or rng.chance(0.6):
        # recovery: a new interpreter does the work again - for the copying writers with ANOTHER source trace
        # into the same destination, so whatever the interrupted attempt left behind meets different content
        rr = rng.fork("redo")
        redo: List[Dict[str, Any]] = [dict(ops[0])]
        for o in ops[1:-1]:
            o2 = json.loads(json.dumps(o))
            if o2["op"] == "write_trace" and len(files) > 1:
                others = [f for f in files if f["name"] != o2["src"]]
                o2["src"] = rr.choice(others)["name"]
            if o2["op"] == "update_rank":
                o2["rank"] = rr.choice([2, 5, 11, 12, 64])
            redo.append(o2)
        redo.append({"op": "disk", "docs": False})
        sessions.append({"zygote": rr.below(len(driver.HASH_SEEDS)), "env": loader.gen_env(rr, len(files), False),
                         "pre": [], "ops": redo})
    for k in range(2):
        r = rng.fork(f"b{k}")
        sessions.append({"zygote": r.below(len(driver.HASH_SEEDS)), "env": loader.gen_env(r, len(files) * 2, False), "pre": [],
                         "ops": [{"op": "discover", "dir": "."},
                                 {"op": "load", "mode": "full", "via": "dir", "include_last": inc, "mp": r.chance(0.6),
                                  "memprof": False}]})
    return {"format": 1, "profile": NAME, "world": world, "sessions": sessions,
            "enumerate": {"target": target, "kinds": ["write_enospc", "kill"]}}


def gen_plan(rng: Rng, tier: str, faulty: bool = False, enum: bool = False, base: int = 0) -> Dict[str, Any]:
    if enum:
        return gen_plan_enum(rng, tier, base)
    world = worldgen.gen_world(rng.fork("world"), "files", {"always_args": True, "causal": True})
    files = world["files"]
    ranks = [f["rank"] for f in files]
    inc = rng.chance(0.5)
    ops: List[Dict[str, Any]] = [{"op": "load", "mode": "ta", "via": "dir", "include_last": inc}]
    n_graphs = 0
    wrote_sibling = False
    rr = rng.fork("replace")
    if not faulty and rr.chance(0.3):
        # the world outside replaces a source file while the session lives (a newer export, a copy that keeps its
        # timestamps): a writer has read the file before, the session loads again, the writers must then preserve the
        # events that are on disk *now*. Done first, so that every sibling written later derives from the new content.
        f = rr.choice(files)
        first = ({"op": "gen_counters", "series": rr.choice([None, "queue"]), "ranks": [f["rank"]], "suffix": None})
        ops.append(first)
        ops.append({"op": "replace_source", "path": f["name"], "pick": rr.below(1000),
                    "mtime": rr.choice(["keep", "keep", "now", "older"])})
        ops.append({"op": "load", "mode": "ta", "via": "dict", "files": {str(x["rank"]): x["name"] for x in files},
                    "abs_files": rr.chance(0.5), "include_last": inc})
        ops.append(dict(first))
    for _ in range(rng.randint(1, 4)):
        kind = rng.weighted([("counters", 5), ("overlay", 4), ("write", 3), ("update_rank", 2), ("discover", 2)])
        if kind == "counters":
            sel = sorted(rng.sample(ranks, rng.randint(1, len(ranks)))) if rng.chance(0.7) else None
            if sel is None and 0 not in ranks:
                sel = [ranks[0]]
            ops.append({"op": "gen_counters", "series": rng.choice([None, "queue", "bw", "both"]), "ranks": sel,
                        "suffix": rng.choice([None, None, "_with_counters", "_c2", ""])})
            wrote_sibling = True
        elif kind == "overlay":
            a = gen_analyze(rng, world, inc)
            ops.append(a)
            g = n_graphs
            n_graphs += 1
            env = {}
            if rng.chance(0.4):
                env["CRITICAL_PATH_SHOW_ZERO_WEIGHT_LAUNCH_EDGE"] = "1"
            if a.get("environ", {}).get("CRITICAL_PATH_ADD_ZERO_WEIGHT_LAUNCH_EDGE"):
                env["CRITICAL_PATH_ADD_ZERO_WEIGHT_LAUNCH_EDGE"] = "1"
            ops.append({"op": "cp_overlay", "graph": g, "rank": a["rank"], "out_dir": rng.choice(["overlay", "overlay/x", "out"]),
                        "only_critical": rng.chance(0.4), "all_edges": rng.chance(0.5), "environ": env})
        elif kind == "write":
            src = rng.choice(files)
            ext = rng.choice([".json", ".json.gz"])
            ops.append({"op": "write_trace", "src": src["name"], "dst": f"out/copy_{src['rank']}{ext}"})
        elif kind == "update_rank":
            src = rng.choice(files)
            ext = rng.choice([".json", ".json.gz"])
            dst = f"out/rk_{src['rank']}{ext}"
            ops.append({"op": "write_trace", "src": src["name"], "dst": dst})
            ops.append({"op": "update_rank", "path": dst, "rank": rng.choice([0, 1, 7, 10, 63, 4095])})
            ops.append({"op": "discover", "files": [dst]})
        else:
            names = [f["name"] for f in files]
            rng.shuffle(names)
            ops.append({"op": "discover", "files": names})
    sess_a = {"zygote": rng.below(len(driver.HASH_SEEDS)), "env": loader.gen_env(rng.fork("ea"), len(files), False),
              "pre": [], "ops": ops}
    sessions = [sess_a]
    # the next sessions discover the directory (both directory orders) and load it
    for k in range(2):
        r = rng.fork(f"b{k}")
        env = loader.gen_env(r, len(files) * 2, False)
        sessions.append({"zygote": r.below(len(driver.HASH_SEEDS)), "env": env, "pre": [],
                         "ops": [{"op": "discover", "dir": "."},
                                 {"op": "load", "mode": "full", "via": "dir", "include_last": inc, "mp": r.chance(0.6),
                                  "memprof": False}]})
    if faulty:
        fr = rng.fork("faults")
        kind = fr.weighted([("write_enospc", 6), ("write_eio", 4), ("kill", 8), ("fsop_fail", 1), ("open_eacces", 1), ("alloc_fail", 2)])
        target = fr.choice(["_with_counters", "_c2", "overlaid_critical_path_", "out/"])
        if kind == "alloc_fail":
            # the serialiser cannot allocate the document in one piece
            sess_a["env"].setdefault("faults", []).append({"kind": kind, "path": "@alloc", "site": fr.choice(["json.dumps", "json.dumps", "json.dump"]),
                                                           "call": fr.choice([0, 0, 1, 2])})
        elif kind == "fsop_fail":
            # creating the output directory fails
            sess_a["env"].setdefault("faults", []).append({"kind": kind, "path": fr.choice(["out", "overlay"]), "contains": True,
                                                           "errno": fr.choice(["EPERM", "ENOSPC", "EACCES"])})
        elif kind == "open_eacces":
            sess_a["env"].setdefault("faults", []).append({"kind": kind, "path": target, "contains": True, "cls": "w",
                                                           "errno": fr.choice(["EACCES", "EMFILE", "EROFS"])})
        else:
            sess_a["env"].setdefault("faults", []).append({"kind": kind, "path": target, "contains": True,
                                                           "call": fr.choice([0, 0, 1, 2, 3, 7, 20])})
    return {"format": 1, "profile": NAME, "world": world, "sessions": sessions}


# -- oracle ---------------------------------------------------------------------------------------
def _strip_critical(ev: Dict[str, Any]) -> Dict[str, Any]:
    if isinstance(ev.get("args"), dict) and "critical" in ev["args"]:
        ev = dict(ev)
        ev["args"] = {k: v for k, v in ev["args"].items() if k != "critical"}
    return ev


def check_prefix(res: Result, tag: str, src_events: List[Dict[str, Any]], out_events: List[Dict[str, Any]],
                 allow_critical: bool, si: int, oi: int) -> bool:
    if len(out_events) < len(src_events):
        res.violate("C20", f"events-lost/{tag}", {"src": len(src_events), "out": len(out_events)}, si, oi)
        return False
    for i, (a, b) in enumerate(zip(src_events, out_events)):
        b2 = _strip_critical(b) if allow_critical else b
        if a != b2:
            res.violate("C20", f"event-altered/{tag}", {"pos": i, "src": json.dumps(a)[:200], "out": json.dumps(b)[:200]}, si, oi)
            return False
    return True


def check_counters_file(res: Result, name: str, info: Dict[str, Any], ws: loader.Workspace, si: int, oi: int) -> None:
    # which source does it belong to?  <src stem><suffix>.json[.gz]
    src = None
    for cand, f in ws.files.items():
        if f.get("tool_written") or ".json" not in cand:
            continue
        stem = cand[: cand.index(".json")]
        if name.startswith(stem) and name[len(stem):] != cand[len(stem):] and name.endswith(cand[cand.index(".json"):]):
            if src is None or len(cand) > len(src):
                src = cand
    fmt = "gz" if name.endswith(".gz") else "json"
    if not info.get("valid"):
        res.violate("C20", f"counters-file-not-a-trace/{fmt}", {"file": name, "error": info.get("error")}, si, oi)
        return
    tr = info.get("tool_read") or {}
    if not tr.get("ok"):
        res.violate("C20", f"tool-cannot-read-its-own-file/counters/{fmt}",
                    {"file": name, "exc": tr.get("exc"), "bytes_are_gzip": info.get("is_gzip")}, si, oi)
    elif tr.get("doc_sha") != info.get("harness_doc_sha"):
        res.violate("C20", f"tool-reads-other-content/counters/{fmt}", {"file": name}, si, oi)
    if src is None:
        res.violate("C20", "counters-file-name", {"file": name}, si, oi)
        return
    res.oracle_evals += 1
    res.nontrivial = True
    sdoc = ws.files[src]["doc"]
    odoc = info["doc"]
    if check_prefix(res, "counters", sdoc["traceEvents"], odoc.get("traceEvents", []), False, si, oi):
        extra = odoc["traceEvents"][len(sdoc["traceEvents"]):]
        bad = [e for e in extra if e.get("ph") != "C"]
        if bad:
            res.violate("C20", "non-counter-appended/counters", {"first": json.dumps(bad[0])[:200]}, si, oi)
        if extra:
            res.probe("counter_events_appended")
    for k in sdoc:
        if k != "traceEvents" and odoc.get(k) != sdoc[k]:
            res.violate("C20", "metadata-altered/counters", {"key": k}, si, oi)
    if fmt == "json":
        res.probe("json_source_counters_file")
    ws.files[name] = {"doc": odoc, "torn": False, "format": fmt, "tool_written": True,
                      "tool_readable": bool(tr.get("ok"))}


def check_overlay(res: Result, o: Dict[str, Any], obs: Dict[str, Any], graph: Optional[Dict[str, Any]],
                  ws: loader.Workspace, src_name: Optional[str], environ: Dict[str, str], si: int, oi: int) -> None:
    info = obs.get("file") or {}
    path = obs.get("path") or ""
    fmt = "gz" if path.endswith(".gz") else "json"
    if not info.get("exists"):
        res.violate("C20", "overlay-file-missing", {"path": path}, si, oi)
        return
    if not info.get("valid"):
        res.violate("C20", f"overlay-file-not-a-trace/{fmt}", {"path": path}, si, oi)
        return
    from ..ops_files import read_any  # noqa: F401  (documentation: info comes from this reader)
    if fmt == "json" and info.get("is_gzip"):
        res.violate("C20", "tool-cannot-read-its-own-file/overlay/json", {"path": path, "bytes_are_gzip": True}, si, oi)
    if graph is None or src_name is None or src_name not in ws.files:
        return
    res.oracle_evals += 1
    res.nontrivial = True
    sdoc = ws.files[src_name]["doc"]
    src_events = sdoc["traceEvents"]
    out_events = info["doc"].get("traceEvents", [])
    only_critical = bool(o.get("only_critical", True))
    show_all = bool(o.get("all_edges", False)) and not only_critical
    crit_events = set(graph["critical_path_events_set"])
    flows = [e for e in out_events if e.get("ph") in ("s", "f") and e.get("name") == "critical_path"]
    if not only_critical:
        if check_prefix(res, "overlay", src_events, out_events, True, si, oi):
            extra = out_events[len(src_events):]
            bad = [e for e in extra if e not in flows]
            if bad:
                res.violate("C20", "non-flow-appended/overlay", {"first": json.dumps(bad[0])[:200]}, si, oi)
            marked = {i for i, e in enumerate(out_events[: len(src_events)])
                      if isinstance(e.get("args"), dict) and e["args"].get("critical") == 1}
            if marked != {i for i in crit_events if 0 <= i < len(src_events)}:
                res.violate("C20", "critical-markers/overlay",
                            {"extra": sorted(marked - crit_events)[:5], "missing": sorted(crit_events - marked)[:5]}, si, oi)
            res.probe("overlay_all_events_kept")
    else:
        body = [e for e in out_events if e not in flows]
        stripped = [json.dumps(_strip_critical(e), sort_keys=True) for e in body]
        src_s = [json.dumps(e, sort_keys=True) for e in src_events]
        j = 0
        for s_ in stripped:
            while j < len(src_s) and src_s[j] != s_:
                j += 1
            if j == len(src_s):
                res.violate("C20", "overlay-event-not-from-source/only-critical", {"event": s_[:200]}, si, oi)
                break
            j += 1
    # flow pairs: one per drawn edge, on the pid / tid of the events the edge joins
    node_ev = {n[0]: n[1] for n in graph["node_list"]}
    edges = [e[3] for e in graph["edges"] if e[3] is not None]
    crit_edges = [list(e) for e in graph["critical_path_edges_set"]]
    if show_all:
        drawn = [e for e in edges]
        if not environ.get("CRITICAL_PATH_SHOW_ZERO_WEIGHT_LAUNCH_EDGE"):
            drawn = [e for e in drawn if not (e[3] == "critical_path_kernel_launch_delay" and e[2] == 0)]
        res.probe("overlay_all_edges")
    else:
        drawn = crit_edges
    by_id: Dict[Any, Dict[str, List[Dict[str, Any]]]] = {}
    for e in flows:
        by_id.setdefault(e.get("id"), {"s": [], "f": []})[e["ph"]].append(e)
    if any(len(v["s"]) != 1 or len(v["f"]) != 1 for v in by_id.values()):
        res.violate("C20", "flow-pairing/overlay", {"ids": len(by_id)}, si, oi)
        return
    if len(by_id) != len(drawn):
        res.violate("C20", "flow-count/overlay", {"flows": len(by_id), "edges": len(drawn), "all_edges": show_all}, si, oi)
        return
    # match flows to edges as multisets of (src pid, src tid, dst pid, dst tid, type, weight, critical)
    def ev_pt(ev_idx: int) -> Tuple[Any, Any]:
        e = src_events[ev_idx]
        return e.get("pid"), e.get("tid")

    want: Dict[str, int] = {}
    crit_set = {json.dumps(e) for e in crit_edges}
    for e in drawn:
        try:
            a, b = ev_pt(node_ev[e[0]]), ev_pt(node_ev[e[1]])
        except (KeyError, IndexError):
            continue
        key = json.dumps([a, b, e[3], e[2], json.dumps(list(e)) in crit_set])
        want[key] = want.get(key, 0) + 1
    got: Dict[str, int] = {}
    for fid, v in by_id.items():
        s_, f_ = v["s"][0], v["f"][0]
        key = json.dumps([[s_.get("pid"), s_.get("tid")], [f_.get("pid"), f_.get("tid")], s_.get("cat"),
                          (s_.get("args") or {}).get("weight"), bool((s_.get("args") or {}).get("critical"))])
        got[key] = got.get(key, 0) + 1
    want2 = {json.dumps(json.loads(k)): v for k, v in want.items()}
    if got != want2:
        miss = [k for k in want2 if got.get(k, 0) < want2[k]][:3]
        extra = [k for k in got if want2.get(k, 0) < got[k]][:3]
        res.violate("C20", "flow-placement/overlay", {"missing": miss, "extra": extra}, si, oi)
    if any(e[3] == "critical_path_sync_dependency" for e in drawn):
        res.probe("overlay_with_sync_edges")


def check(plan: Dict[str, Any], execution: Dict[str, Any], props: Optional[Set[str]] = None) -> Result:
    res = Result()
    loader.collect_probes(res, execution)
    ws = loader.Workspace(plan["world"])
    loads: List[Tuple[int, Dict[str, Any]]] = []
    tool_unreadable_in_dir = False
    for si, (sess, sx) in enumerate(zip(plan["sessions"], execution["sessions"])):
        results = driver.op_results(sx)
        graphs: List[Optional[Dict[str, Any]]] = []
        trace_files: Dict[str, str] = {}
        for r in results:
            if r.get("skipped"):
                continue
            o = sess["ops"][r["i"]]
            kind = o["op"]
            fired = [e for e in r["events"] if e.get("ev") == "fault_fired"]
            obs = r.get("obs") or {}
            if kind == "load":
                if r["ok"]:
                    trace_files = obs["trace_files"]
                    if si == 0:
                        loader.check_load(res, {"C20"}, si, o, r, ws, False, False)
                    else:
                        loads.append((si, r))
                        won = [p for p in obs["trace_files"].values() if ws.files.get(p, {}).get("tool_written")]
                        if won:
                            res.probe("sibling_wins_the_collision")
                        torn_before = any(f["torn"] for f in ws.files.values())
                        if not torn_before:
                            sub = loader.Result()
                            loader.check_load(sub, {"C01"}, si, o, r, ws, False, False)
                            for v in sub.violations:
                                res.violate("C20", "next-session-load/" + v["sig"], v["detail"], si, r["i"])
                            res.oracle_evals += sub.oracle_evals
                else:
                    torn = any(f["torn"] for f in ws.files.values())
                    if si > 0 and not torn:
                        cls = "after-json-source-counters" if tool_unreadable_in_dir else "other"
                        res.violate("C20", f"next-session-load-raised/{cls}/{r.get('exc')}",
                                    {"msg": r.get("msg"), "where": r.get("where")}, si, r["i"])
                continue
            if kind == "cp_analyze":
                graphs.append(obs if (r["ok"] and not obs.get("none") and obs.get("success")) else None)
                continue
            def _torn(path: Optional[str]) -> bool:
                f = ws.files.get(path) if path else None
                return f is not None and (f["torn"] or f.get("doc") is None)

            if kind == "discover":
                listed_now = o.get("files") if o.get("files") is not None else [p for p in ws.files if "/" not in p]
                touches_torn = any(_torn(p) for p in listed_now) or (o.get("files") is None and "__torn__" in ws.files)
            elif kind == "update_rank":
                touches_torn = _torn(o["path"]) or o["path"] not in ws.files
            elif kind == "write_trace":
                touches_torn = _torn(o["src"])
            else:
                touches_torn = False
            if not r["ok"]:
                if fired or r.get("killed"):
                    res.probe("writer_failed_under_fault")
                    # whatever the writer was producing is torn now
                    for key in ("dst", "path"):
                        if o.get(key):
                            ws.files[o[key]] = {"doc": None, "torn": True, "format": "?", "tool_written": True,
                                                "torn_in_session": si}
                    continue
                if touches_torn:
                    res.probe("op_on_torn_file_raised")
                    continue
                if kind == "cp_overlay" and graphs and graphs[o["graph"]] is None:
                    continue
                if kind in ("gen_counters", "cp_overlay", "write_trace", "update_rank", "discover"):
                    res.violate("C20", f"{kind}-raised/{r.get('exc')}@{r.get('where')}", {"msg": r.get("msg"), "op": o}, si, r["i"])
                continue
            if kind == "gen_counters":
                if obs.get("raised"):
                    if fired:
                        res.probe("writer_failed_under_fault")
                        for name, info in obs["files"].items():
                            ws.files[name] = {"doc": info.get("doc"), "torn": True, "format": "?", "tool_written": True}
                        continue
                    res.violate("C20", f"gen_counters-raised/{obs['raised']}", {"op": o}, si, r["i"])
                    continue
                for name, info in obs["files"].items():
                    if "/" in name:
                        continue
                    if ws.files.get(name, {}).get("torn"):
                        # torn by an earlier injected fault; buffered bytes may still trickle in when
                        # the interpreter finalises the abandoned writer
                        continue
                    check_counters_file(res, name, info, ws, si, r["i"])
                    if name in ws.files and not ws.files[name].get("tool_readable", True):
                        tool_unreadable_in_dir = True
                res.states.add(("counters", o.get("series"), len(obs["files"])))
            elif kind == "cp_overlay":
                if obs.get("skipped"):
                    continue
                g = graphs[o["graph"]] if o["graph"] < len(graphs) else None
                src = trace_files.get(str(o["rank"]))
                check_overlay(res, o, obs, g, ws, src, o.get("environ") or {}, si, r["i"])
                res.states.add(("overlay", bool(o.get("only_critical")), bool(o.get("all_edges")), bool(o.get("environ"))))
            elif kind == "replace_source":
                if not obs.get("skipped") and obs.get("path") in ws.files:
                    ws.files[obs["path"]]["doc"] = obs["doc"]
                    res.probe("source_replaced_in_session")
            elif kind == "write_trace":
                src = ws.files.get(o["src"])
                for name, info in obs["files"].items():
                    if name != o["dst"]:
                        # some other file changed while this operation ran (an abandoned writer of an earlier,
                        # failed operation being finalised): not this operation's output
                        continue
                    if ws.files.get(name, {}).get("torn_in_session") == si:
                        # the writer object of the failed attempt is still alive in this interpreter and is
                        # finalised at some later moment (it then flushes into the file, whatever has been
                        # written to that path since): the path stays unjudged until the session ends
                        res.probe("rewrite_after_failed_write_in_same_session")
                        continue
                    fmt = "gz" if name.endswith(".gz") else "json"
                    if not info.get("valid"):
                        res.violate("C20", f"written-file-not-a-trace/write_trace/{fmt}", {"file": name}, si, r["i"])
                        continue
                    tr = info.get("tool_read") or {}
                    if not tr.get("ok") or tr.get("doc_sha") != info.get("harness_doc_sha"):
                        res.violate("C20", f"tool-cannot-read-its-own-file/write_trace/{fmt}", {"file": name}, si, r["i"])
                    res.oracle_evals += 1
                    res.nontrivial = True
                    if src is not None and info["doc"] != src["doc"]:
                        res.violate("C20", f"content-altered/write_trace/{fmt}", {"file": name}, si, r["i"])
                    ws.files[name] = {"doc": info["doc"], "torn": False, "format": fmt, "tool_written": True}
                    if src is not None and (fmt == "gz") != (src["format"] == "gz"):
                        res.probe("format_changed_by_write_trace")
            elif kind == "update_rank":
                before = ws.files.get(o["path"])
                if before is not None and before.get("torn_in_session") == si:
                    continue
                if o["path"] not in obs["files"] and before is not None and before.get("doc") is not None:
                    # the call returned but the bytes on disk did not change
                    res.oracle_evals += 1
                    res.nontrivial = True
                    di = before["doc"].get("distributedInfo")
                    if not (isinstance(di, dict) and di.get("rank") == o["rank"]):
                        res.violate("C20", "rank-not-recorded/update_rank",
                                    {"file": o["path"], "rank": o["rank"], "had_distributedInfo": isinstance(di, dict)}, si, r["i"])
                for name, info in obs["files"].items():
                    if name != o["path"]:
                        continue
                    fmt = "gz" if name.endswith(".gz") else "json"
                    if not info.get("valid"):
                        res.violate("C20", f"written-file-not-a-trace/update_rank/{fmt}", {"file": name}, si, r["i"])
                        continue
                    res.oracle_evals += 1
                    res.nontrivial = True
                    doc = info["doc"]
                    if before is not None and before.get("doc") is not None:
                        want = copy.deepcopy(before["doc"])
                        want.setdefault("distributedInfo", {})["rank"] = o["rank"]
                        if doc != want:
                            what = "events" if doc.get("traceEvents") != want.get("traceEvents") else "metadata"
                            res.violate("C20", f"content-altered/update_rank/{what}", {"file": name}, si, r["i"])
                    ws.files[name] = {"doc": doc, "torn": False, "format": fmt, "tool_written": True}
                    if o["rank"] >= 10:
                        res.probe("rank_ge_10")
                    if before is not None and "distributedInfo" not in (before.get("doc") or {}):
                        res.probe("file_without_distributedInfo")
            elif kind == "discover":
                res.oracle_evals += 1
                res.nontrivial = True
                listed = o.get("files")
                if listed is None:
                    listed = [p for p in ws.files if "/" not in p]
                by_rank: Dict[int, List[str]] = {}
                for p in listed:
                    f = ws.files.get(p)
                    if f is None or f["torn"] or f.get("doc") is None:
                        by_rank = {}
                        listed = []
                        break
                    di = f["doc"].get("distributedInfo")
                    if isinstance(di, dict) and isinstance(di.get("rank"), int):
                        by_rank.setdefault(di["rank"], []).append(p)
                for rank, cands in by_rank.items():
                    got = obs["map"].get(str(rank))
                    if got not in cands:
                        # a file without recorded rank may legitimately take rank 0
                        norank = [p for p in listed if not isinstance((ws.files[p]["doc"].get("distributedInfo") or {}).get("rank"), int)]
                        if rank == 0 and got in norank:
                            continue
                        res.violate("C20", "rank-discovery", {"rank": rank, "got": got, "candidates": cands}, si, r["i"])
                    if len(cands) > 1:
                        res.probe("rank_collision_in_discovery")
        # a killed session may leave torn files: re-read what is on disk from the events of later sessions
        if sx["status"] == "killed":
            for name in list(ws.files):
                pass
            ws.files["__torn__"] = {"doc": None, "torn": True, "format": "?"}
            res.probe("session_killed")
    # both directory orders must give the same frames
    ok_loads = [(si, r) for si, r in loads if r["ok"]]
    if len(ok_loads) == 2:
        a, b = ok_loads[0][1]["obs"], ok_loads[1][1]["obs"]
        res.oracle_evals += 1
        fa = {k: sorted(v, key=lambda row: row.get("index", -1)) for k, v in a["ranks"].items()}
        fb = {k: sorted(v, key=lambda row: row.get("index", -1)) for k, v in b["ranks"].items()}
        if fa != fb:
            res.violate("C20", "directory-order-dependence", {"files_a": a["trace_files"], "files_b": b["trace_files"]},
                        ok_loads[1][0], ok_loads[1][1]["i"])
        if a["trace_files"] != b["trace_files"]:
            res.probe("directory_order_changed_the_winner")
    return res
