"""Driver: starts the zygotes, materialises worlds, executes plans session by session and
collects the event logs (DESIGN.md 4.1, 4.5)."""
from __future__ import annotations

import hashlib
import json
import os
import shutil
import signal
import socket
import struct
import subprocess
import sys
import time
from typing import Any, Dict, List, Optional

from . import worldgen

REPO = os.environ.get("VERIF_REPO", "/repo")
PYTHON = sys.executable
# The PYTHONHASHSEED values of the zygotes.  Set once per invocation by set_hash_seeds()
# (before any plan is generated): "0" (hash randomisation off) plus values derived from
# VERIF_SEED, so that different seeds explore different symbol numberings.  A plan stores
# the list it was generated for; replay restores it.
HASH_SEEDS = ["0", "1", "2", "3"]


def set_hash_seeds(seed: int, tier: str = "quick", explicit=None) -> None:
    from .prng import Rng
    global HASH_SEEDS
    if explicit:
        HASH_SEEDS[:] = [str(x) for x in explicit]
        return
    n = 6 if tier == "quick" else 16
    r = Rng(seed).fork("hash-seeds")
    vals = ["0"]
    while len(vals) < n:
        v = str(1 + r.below(4294967294))
        if v not in vals:
            vals.append(v)
    HASH_SEEDS[:] = vals
SESSION_TIMEOUT_S = float(os.environ.get("VERIF_SESSION_TIMEOUT", "300"))
VERIF_DIR = os.path.dirname(os.path.dirname(os.path.abspath(__file__)))


def _scratch_root() -> str:
    for cand in ("/dev/shm", os.environ.get("TMPDIR") or "/tmp"):
        if os.path.isdir(cand) and os.access(cand, os.W_OK):
            return cand
    return "/tmp"


class SimHost:
    """Owns the scratch directory and the zygotes of one check invocation."""

    def __init__(self, debug: bool = False) -> None:
        # fixed-width names: path lengths leak into byte counts (zip headers), so they must not vary
        self.base = os.path.join(_scratch_root(), f"hta-sim-{os.getpid() % 10000000:07d}-{int(time.time() * 1000) % 100000:05d}")
        os.makedirs(self.base, exist_ok=True)
        self.debug = debug
        self.zygotes: List[subprocess.Popen] = []
        self.socks: List[str] = []
        self._nonce = 0

    def start(self) -> None:
        for i, hs in enumerate(HASH_SEEDS):
            sock = os.path.join(self.base, f"zyg{i}.sock")
            env = dict(os.environ)
            env["PYTHONHASHSEED"] = hs
            env["PYTHONPATH"] = VERIF_DIR + os.pathsep + env.get("PYTHONPATH", "")
            env.pop("PYTHONWARNINGS", None)
            p = subprocess.Popen([PYTHON, "-W", "ignore", "-m", "sim.zygote", sock, REPO], stdin=subprocess.PIPE,
                                 stdout=subprocess.PIPE, stderr=None if self.debug else subprocess.DEVNULL,
                                 env=env, cwd=VERIF_DIR)
            self.zygotes.append(p)
            self.socks.append(sock)
        for i, p in enumerate(self.zygotes):
            line = p.stdout.readline().decode().strip()
            if line != "READY":
                rest = line
                self.stop()
                raise RuntimeError(f"zygote {i} failed to start: {rest!r}")

    def info(self) -> Dict[str, Any]:
        return {"base": self.base, "socks": list(self.socks), "debug": self.debug}

    def stop(self) -> None:
        for p in self.zygotes:
            try:
                p.stdin.close()
            except Exception:  # noqa: BLE001
                pass
        for p in self.zygotes:
            try:
                p.wait(timeout=5)
            except Exception:  # noqa: BLE001
                p.kill()
        self.zygotes = []
        shutil.rmtree(self.base, ignore_errors=True)
        tmp_twin = "/tmp/" + self.base.lstrip("/")
        shutil.rmtree(tmp_twin, ignore_errors=True)
        # remove empty parents we may have created under /tmp (e.g. /tmp/dev/shm)
        parent = os.path.dirname(tmp_twin)
        while parent not in ("/tmp", "/", ""):
            try:
                os.rmdir(parent)
            except OSError:
                break
            parent = os.path.dirname(parent)

    def __enter__(self) -> "SimHost":
        self.start()
        return self

    def __exit__(self, *exc: Any) -> None:
        self.stop()


def _run_session(info: Dict[str, Any], sess: Dict[str, Any], world_dir: str, nonce: str) -> Dict[str, Any]:
    zi = int(sess.get("zygote", 0)) % len(info["socks"])
    s = socket.socket(socket.AF_UNIX, socket.SOCK_STREAM)
    s.connect(info["socks"][zi])
    req = json.dumps({"session": sess, "world_dir": world_dir, "nonce": nonce, "base": info["base"],
                      "debug": info.get("debug", False)}).encode()
    s.sendall(struct.pack("<Q", len(req)) + req)
    s.settimeout(SESSION_TIMEOUT_S)
    f = s.makefile("rb")
    events: List[Dict[str, Any]] = []
    pid = None
    hashseed = None
    status = "eof"
    deadline = time.time() + SESSION_TIMEOUT_S
    try:
        while True:
            if time.time() > deadline:
                raise socket.timeout()
            line = f.readline()
            if not line:
                break
            ev = json.loads(line)
            if ev.get("ev") == "hello":
                pid = ev["pid"]
                hashseed = ev.get("hashseed")
                continue
            events.append(ev)
            if ev.get("ev") == "session_end":
                status = "killed" if ev.get("killed") else "ok"
            elif ev.get("ev") == "harness_error":
                status = "harness_error"
    except (socket.timeout, TimeoutError):
        status = "timeout"
    finally:
        if pid is not None and status in ("timeout",):
            try:
                os.killpg(pid, signal.SIGKILL)
            except Exception:  # noqa: BLE001
                pass
        try:
            f.close()
            s.close()
        except Exception:  # noqa: BLE001
            pass
    if status == "eof":
        # the child vanished without saying goodbye: an injected kill says "killed" first
        status = "died"
    return {"events": events, "status": status, "hashseed": hashseed, "zygote": zi}


_NONCE = [0]
CLOCK_EPOCH = 1_700_000_000.0
SESSION_GAPS = (2000.0, 7200.0, 86400.0, 3456000.0, 2000.0, 86400.0, 30.0, -4000.0)
FILE_AGES = (5.0, 600.0, 86400.0, 3.0e6)


def _stamp_world(plan: Dict[str, Any], world_dir: str) -> None:
    """Modification times of the world's files are simulated too: seeded ages before the first session's start."""
    sessions = plan.get("sessions") or [{}]
    seed = int((sessions[0].get("env") or {}).get("clock_seed", 0))
    names = []
    for d, _dirs, files in os.walk(world_dir):
        for n in files:
            names.append(os.path.join(d, n))
    for i, p in enumerate(sorted(names)):
        t = CLOCK_EPOCH - FILE_AGES[(seed + i) % len(FILE_AGES)]
        try:
            os.utime(p, (t, t))
        except OSError:
            pass


def execute_plan(info: Dict[str, Any], plan: Dict[str, Any]) -> Dict[str, Any]:
    """Materialise the plan's world in a fresh scratch directory, run its sessions in order
    (each in a new interpreter life under the zygote it names) and return the event logs."""
    _NONCE[0] += 1
    nonce = f"x{os.getpid() % 10000000:07d}n{_NONCE[0] % 1000000:06d}"
    run_dir = os.path.join(info["base"], nonce)
    world_dir = os.path.join(run_dir, "w")
    os.makedirs(world_dir, exist_ok=True)
    tmp_twins = ["/tmp/" + run_dir.lstrip("/"), f"/tmp/{nonce}_rel"]
    try:
        worldgen.write_world(plan["world"], world_dir)
        _stamp_world(plan, world_dir)
        sessions = []
        clock_start = CLOCK_EPOCH
        for k, sess in enumerate(plan["sessions"]):
            sess = json.loads(json.dumps(sess).replace("{N}", nonce))
            sess.setdefault("env", {})
            if int(sess["env"].get("clock_model", 1)) >= 2 and "clock_start" not in sess["env"]:
                # interpreter lives of one world start at different wall-clock times: minutes, hours, days or
                # weeks later - or earlier (the clock was reset between two lives)
                if k > 0:
                    clock_start += SESSION_GAPS[(int(sess["env"].get("clock_seed", 0)) >> 7) % len(SESSION_GAPS)]
                sess["env"]["clock_start"] = clock_start
            sess["env"]["extra_roots"] = ["/tmp/" + world_dir.lstrip("/"), f"/tmp/{nonce}_rel"]
            sessions.append(_run_session(info, sess, world_dir, nonce))
        h = hashlib.sha256()
        for s in sessions:
            h.update(f"[{s['status']}|{s['zygote']}]".encode())
            for ev in s["events"]:
                ev2 = {k: v for k, v in ev.items() if k not in ("tb",)}
                h.update(json.dumps(ev2, sort_keys=True).encode())
                h.update(b"\n")
        return {"sessions": sessions, "digest": h.hexdigest()}
    finally:
        shutil.rmtree(run_dir, ignore_errors=True)
        for t in tmp_twins:
            shutil.rmtree(t, ignore_errors=True)


def op_results(session: Dict[str, Any]) -> List[Dict[str, Any]]:
    """Group a session's events per operation: [{op, ok, obs, exc, msg, events}]."""
    out: List[Dict[str, Any]] = []
    cur: Optional[Dict[str, Any]] = None
    for ev in session["events"]:
        kind = ev.get("ev")
        if kind == "op_begin":
            cur = {"i": ev["i"], "op": ev["op"], "ok": None, "obs": None, "exc": None, "events": [], "killed": False}
            out.append(cur)
        elif kind == "op_end":
            if cur is not None:
                cur["ok"] = ev.get("ok")
                cur["obs"] = ev.get("obs")
                cur["exc"] = ev.get("exc")
                cur["msg"] = ev.get("msg")
                cur["where"] = ev.get("where")
                cur["killed"] = bool(ev.get("killed"))
                cur["skipped"] = bool(ev.get("skipped"))
        elif cur is not None:
            cur["events"].append(ev)
    return out


def sim_events(execution: Dict[str, Any]) -> List[Dict[str, Any]]:
    out = []
    for s in execution["sessions"]:
        for ev in s["events"]:
            if ev.get("ev") not in ("op_begin", "op_end"):
                out.append(ev)
    return out
