"""SimEnv: everything a simulated session's code can observe besides its arguments goes
through here (DESIGN.md 4.2, 4.4): pool / manager, cpu count, free memory, tracemalloc peak,
directory order, file reads and writes with injected faults, escape detection.

All seams are module attributes of the *libraries* (multiprocessing, os, builtins, io,
psutil, tracemalloc, threading), replaced inside the session child before the first HTA
call.  Nothing in /repo is touched.
"""
from __future__ import annotations

import builtins
import contextlib
import errno
import hashlib
import io
import json
import os
import sys
import types
from typing import Any, Callable, Dict, List, Optional

from .prng import Rng

_CURRENT: Optional["SimEnv"] = None
KILL_EXIT = 137


def current() -> Optional["SimEnv"]:
    return _CURRENT


def short(obj: Any, n: int = 48) -> str:
    try:
        s = repr(obj)
    except Exception:  # noqa: BLE001
        s = "<unrepr>"
    if len(s) > n:
        s = s[:n] + "+" + hashlib.sha256(s.encode()).hexdigest()[:8]
    return s


EPOCH = 1_700_000_000.0
REAL_ERA = 1_760_000_000.0   # anything later than this was stamped by the real clock
JUMPS_2 = (0.0, 0.003, 0.25, 0.6, 0.999, 1.0, 2.5, 61.0, 0.0, 0.4, 1.0, 5.0, 30.0, 3600.0, -0.7, -5400.0)


class SessionKilled(BaseException):
    pass


class SimEnv:
    def __init__(self, cfg: Dict[str, Any], world_dir: str, emit: Callable[[Dict[str, Any]], None]) -> None:
        self._orig: Dict[str, Any] = {}
        self._installed = False
        self.active = True
        self.configure(cfg, world_dir, emit)

    def configure(self, cfg: Dict[str, Any], world_dir: str, emit: Callable[[Dict[str, Any]], None]) -> None:
        """(Re-)initialises the per-session state. The seams are installed once, by the zygote, *before* the system
        under test is imported (so that `from concurrent.futures import as_completed`, `from os import listdir` ...
        bind the simulated objects too); every session child re-configures that one environment object."""
        self.cfg = cfg
        self.world_dir = os.path.realpath(world_dir)
        self.emit = emit
        self.cpu_count: int = int(cfg.get("cpu_count", 4))
        self.mem_available: int = int(cfg.get("mem_available", 8 * 2 ** 30))
        self.tracemalloc_peak: int = int(cfg.get("tracemalloc_peak", 4 * 2 ** 20))
        self.tapes: List[List[int]] = [list(t) for t in cfg.get("tapes", [])]
        self.listdir_seed: int = int(cfg.get("listdir_seed", 0))
        self.faults: List[Dict[str, Any]] = [dict(f) for f in cfg.get("faults", [])]
        self.extra_roots: List[str] = [os.path.realpath(p) for p in cfg.get("extra_roots", [])]
        self.stats: Dict[str, Any] = {"pool_sizes": [], "choices": 0, "sched_steps": 0,
                                      "unsimulated_concurrency": 0}
        self._pool_no = 0
        # simulated wall clock: a fixed epoch, a seeded phase within the second, a small step per reading and a
        # seeded jump at every operation boundary (so that two writes land in the same or in different seconds)
        self.clock_seed: int = int(cfg.get("clock_seed", 0))
        # clock model 2 (plans that say so): the session's start time comes from the plan (sessions of one world start
        # at different - also earlier - times), jumps between operations may go backwards (a stepped / reset clock),
        # and file modification times follow the simulated clock (see stamp)
        self.clock_model: int = int(cfg.get("clock_model", 1))
        self._clock_now: float = float(cfg.get("clock_start", EPOCH)) + (self.clock_seed % 1000) / 1000.0
        self._clock_state: int = self.clock_seed
        self._clock_start: float = self._clock_now
        self._clock_fwd: float = 0.0
        self._open_writes: Dict[int, str] = {}
        self._fork_ok = 0
        self.in_worker: Optional[int] = None
        self._worker_events: List[Dict[str, Any]] = []
        self.open_counts: Dict[str, int] = {}
        self.cur_op: int = -1
        self.io_counts: Dict[str, Dict[str, int]] = {}
        if self._installed:
            self._after_configure()

    def _after_configure(self) -> None:
        import tempfile
        from . import simthreads
        self.threads = simthreads.ThreadSched(self)
        tempfile._name_sequence = self._names_cls(self.clock_seed)

    # -- logging -------------------------------------------------------------------------------
    def log(self, ev: str, **kw: Any) -> None:
        rec = {"ev": ev}
        rec.update(kw)
        self.log_raw(rec)

    def log_raw(self, rec: Dict[str, Any]) -> None:
        if self.in_worker is not None and "w" not in rec:
            rec = dict(rec)
            rec["w"] = self.in_worker
            self._worker_events.append(rec)
            return
        if self.in_worker is not None:
            self._worker_events.append(rec)
            return
        rec = dict(rec)
        rec.setdefault("i", self.cur_op)
        self.emit(rec)

    def probe(self, name: str) -> None:
        self.log("probe", name=name)

    def enter_worker(self, idx: int) -> None:
        self.in_worker = idx
        self._worker_events = []

    def drain_worker_events(self) -> List[Dict[str, Any]]:
        evs, self._worker_events = self._worker_events, []
        return evs

    # -- pools -----------------------------------------------------------------------------------
    def next_pool_no(self) -> int:
        n = self._pool_no
        self._pool_no += 1
        return n

    def pool_tape(self, pool_no: int) -> List[int]:
        return self.tapes[pool_no] if pool_no < len(self.tapes) else []

    def record_schedule(self, pool_no: int, assign: list, proxy_order: list, order: list) -> None:
        h = hashlib.sha256(json.dumps([assign, proxy_order, order]).encode()).hexdigest()[:16]
        interleaved = False
        last = None
        seen_done = set()
        for (w, _m) in proxy_order:
            if last is not None and w != last and w in seen_done:
                interleaved = True
            if last is not None and w != last:
                seen_done.add(last)
            last = w
        self.log("schedule", pool=pool_no, digest=h, n_chunks=len(order),
                 in_order=(order == sorted(order)), proxy_calls=len(proxy_order), interleaved=interleaved)

    @contextlib.contextmanager
    def allow_fork(self):
        self._fork_ok += 1
        try:
            yield
        finally:
            self._fork_ok -= 1

    # -- paths -----------------------------------------------------------------------------------
    def rel(self, path: Any) -> Optional[str]:
        """Path relative to the world (or an extra root), or None when outside."""
        try:
            p = os.fspath(path)
        except TypeError:
            return None
        if isinstance(p, bytes):
            p = p.decode(errors="replace")
        if not os.path.isabs(p):
            p = os.path.join(os.getcwd(), p)
        p = os.path.normpath(p)
        for i, root in enumerate([self.world_dir] + self.extra_roots):
            if p == root:
                return "." if i == 0 else f"@{i}"
            if p.startswith(root + os.sep):
                r = p[len(root) + 1:]
                return r if i == 0 else f"@{i}/{r}"
        return None

    def _match_fault(self, kind: str, rel: str, **conds: Any) -> Optional[Dict[str, Any]]:
        for f in self.faults:
            if f.get("kind") != kind or f.get("fired"):
                continue
            fp = f.get("path")
            if fp is not None and not (fp == rel or (f.get("base") and os.path.basename(rel) == fp)
                                       or (f.get("suffix") and rel.endswith(fp))
                                       or (f.get("contains") and fp in rel)):
                continue
            if f.get("op") is not None and f["op"] != self.cur_op:
                continue
            ok = True
            for k, v in conds.items():
                if f.get(k) is not None and f[k] != v:
                    ok = False
                    break
            if ok:
                return f
        return None

    def fire(self, f: Dict[str, Any], rel: str, **kw: Any) -> None:
        f["fired"] = True
        fid = next((i for i, g in enumerate(self.faults) if g is f), None)
        self.log("fault_fired", kind=f["kind"], path=rel, fid=fid, **kw)

    def kill_now(self, rel: str) -> None:
        """The process dies here: no exception handler, no finally block, no context manager of the system under
        test runs afterwards, and whatever sits in user-space buffers of open files is lost (what SIGKILL or a
        power cut does). In a pool worker the old model stays: the failure travels to the parent as an exception."""
        self.log("killed", path=rel)
        if self.in_worker is not None:
            raise SessionKilled()
        for p in list(self._open_writes.values()):
            self.stamp(p)
        self.emit({"ev": "op_end", "i": self.cur_op, "op": getattr(self, "cur_op_name", "?"), "ok": False,
                   "exc": "SessionKilled", "killed": True})
        self.emit({"ev": "session_end", "killed": True, "stats": self.stats})
        os._exit(KILL_EXIT)

    def fault_seen_in_worker(self, ev: Dict[str, Any]) -> None:
        """A fault is one event in the world: once it fired in a pool worker it is disarmed in the parent too
        (the parent's copy of the plan was armed when the worker was forked)."""
        fid = ev.get("fid")
        if isinstance(fid, int) and 0 <= fid < len(self.faults):
            self.faults[fid]["fired"] = True

    # -- installation ----------------------------------------------------------------------------
    def sim_time(self) -> float:
        self._clock_now += 0.0001
        self._clock_fwd += 0.0001
        return self._clock_now

    def clock_jump(self) -> None:
        """Called at every operation boundary."""
        self._clock_state = (self._clock_state * 6364136223846793005 + 1442695040888963407) % (1 << 64)
        if self.clock_model >= 2:
            d = JUMPS_2[(self._clock_state >> 33) % len(JUMPS_2)]
            if d < 0:
                self.probe("clock_jumped_back")
        else:
            d = (0.0, 0.003, 0.25, 0.6, 0.999, 1.0, 2.5, 61.0)[(self._clock_state >> 33) % 8]
        self._clock_now += d
        self._clock_fwd += abs(d)

    def stamp(self, path: str, t: Optional[float] = None) -> None:
        """File modification times are part of the simulated clock: a file written through the file seam carries the
        simulated time of its last close (real utime on the real file, so stat / scandir / pathlib all agree and
        the value survives into the next session)."""
        try:
            t = self._clock_now if t is None else t
            os.utime(path, (t, t))
        except OSError:
            pass

    def normalise_mtimes(self) -> None:
        """Files the harness itself created or edited with the real clock (world materialisation, pre-faults) get a
        simulated time just before the session's start, so that no real time is visible through stat."""
        t = self._clock_start - 1.0
        for root in [self.world_dir] + self.extra_roots:
            for d, _dirs, files in os.walk(root):
                for n in files + ["."]:
                    p = os.path.join(d, n)
                    try:
                        if os.stat(p).st_mtime > REAL_ERA:
                            os.utime(p, (t, t))
                    except OSError:
                        pass

    def install(self) -> None:
        global _CURRENT
        _CURRENT = self
        if self._installed:
            return
        env = self
        import time as _time
        real_time, real_time_ns = _time.time, _time.time_ns
        _time.time = lambda: env.sim_time() if env.active else real_time()
        _time.time_ns = lambda: int(env.sim_time() * 1e9) if env.active else real_time_ns()
        import multiprocessing
        import multiprocessing.pool
        import multiprocessing.process
        import concurrent.futures
        import concurrent.futures.process
        import threading
        import tracemalloc
        from . import simpool

        multiprocessing.cpu_count = lambda: env.cpu_count
        os.cpu_count = lambda: env.cpu_count
        if hasattr(os, "process_cpu_count"):
            os.process_cpu_count = lambda: env.cpu_count
        if hasattr(os, "sched_getaffinity"):
            os.sched_getaffinity = lambda pid=0: set(range(env.cpu_count))
        multiprocessing.get_context = lambda method=None: simpool.SimContext(method)
        multiprocessing.Pool = simpool.SimPool
        multiprocessing.Manager = simpool.SimManager
        multiprocessing.pool.Pool = simpool.SimPool
        concurrent.futures.ProcessPoolExecutor = simpool.SimExecutor
        concurrent.futures.process.ProcessPoolExecutor = simpool.SimExecutor
        # threads: executors, thread pools and bare threads run under the same tape, one task at a time
        import concurrent.futures.thread
        import multiprocessing.dummy
        import queue as _queue
        concurrent.futures.ThreadPoolExecutor = simpool.SimThreadExecutor
        concurrent.futures.thread.ThreadPoolExecutor = simpool.SimThreadExecutor
        concurrent.futures.as_completed = simpool.sim_as_completed
        concurrent.futures.wait = simpool.sim_wait
        concurrent.futures._base.as_completed = simpool.sim_as_completed
        concurrent.futures._base.wait = simpool.sim_wait
        multiprocessing.pool.ThreadPool = simpool.SimThreadPool
        multiprocessing.dummy.Pool = simpool.SimThreadPool
        try:
            import psutil
            psutil.virtual_memory = lambda: types.SimpleNamespace(
                available=env.mem_available, total=max(env.mem_available, 64 * 2 ** 30),
                percent=0.0, used=0, free=env.mem_available)
        except ImportError:
            pass
        tracemalloc.start = lambda *a, **k: None
        tracemalloc.stop = lambda: None
        tracemalloc.get_traced_memory = lambda: (env.tracemalloc_peak // 2, env.tracemalloc_peak)
        tracemalloc.is_tracing = lambda: False

        # escape detector
        real_fork = os.fork

        def guarded_fork() -> int:
            if env._fork_ok <= 0 and env.active:
                env.stats["unsimulated_concurrency"] += 1
                env.log("escape", what="os.fork")
            return real_fork()

        os.fork = guarded_fork
        real_thread_start = threading.Thread.start
        real_thread_join = threading.Thread.join
        real_thread_is_alive = threading.Thread.is_alive

        def sim_thread_start(self_thread, *a, **k):
            if not env.active:
                return real_thread_start(self_thread, *a, **k)
            if env.in_worker is not None:
                # inside a pool worker nothing owns a tape for it
                env.stats["unsimulated_concurrency"] += 1
                env.log("escape", what="threading.Thread.start in a pool worker")
            env.threads.start(self_thread)

        def sim_thread_join(self_thread, timeout=None):
            if getattr(self_thread, "_sim_state", None) is None:
                return real_thread_join(self_thread, timeout)
            env.threads.join(self_thread)

        def sim_thread_is_alive(self_thread):
            if getattr(self_thread, "_sim_state", None) is None:
                return real_thread_is_alive(self_thread)
            return self_thread._sim_state in ("pending", "running")

        threading.Thread.start = sim_thread_start
        threading.Thread.join = sim_thread_join
        threading.Thread.is_alive = sim_thread_is_alive
        from . import simthreads
        real_lock, real_rlock = threading.Lock, threading.RLock
        threading.Lock = lambda: simthreads.SimLock() if env.active else real_lock()
        threading.RLock = lambda *a, **k: simthreads.SimRLock() if env.active else real_rlock(*a, **k)
        real_q_get = _queue.Queue.get

        def sim_q_get(self_q, block=True, timeout=None):
            if not env.active:
                return real_q_get(self_q, block, timeout)
            while block and self_q.empty() and env.threads.step():
                pass
            if block and self_q.empty() and env.in_worker is None and timeout is None:
                from .simpool import SimDeadlock
                raise SimDeadlock("queue.Queue.get() on an empty queue with no thread left to run")
            return real_q_get(self_q, block, timeout)

        _queue.Queue.get = sim_q_get
        real_proc_start = multiprocessing.process.BaseProcess.start

        def guarded_proc_start(self_proc, *a, **k):
            if env.active:
                env.stats["unsimulated_concurrency"] += 1
                env.log("escape", what="multiprocessing.Process.start")
            return real_proc_start(self_proc, *a, **k)

        multiprocessing.process.BaseProcess.start = guarded_proc_start

        # file system
        real_open = builtins.open
        self._orig["open"] = real_open

        def sim_open(file, mode="r", *a, **k):
            rel = env.rel(file) if not isinstance(file, int) else None
            if rel is None:
                return real_open(file, mode, *a, **k)
            return env._open(real_open, file, rel, mode, a, k)

        builtins.open = sim_open
        io.open = sim_open
        real_listdir = os.listdir
        self._orig["listdir"] = real_listdir

        def sim_listdir(path="."):
            names = real_listdir(path)
            rel = env.rel(path)
            if rel is None:
                return names
            names = sorted(names)
            Rng(env.listdir_seed).fork(rel).shuffle(names)
            env.log("listdir", path=rel, n=len(names))
            return names

        os.listdir = sim_listdir
        real_exists = os.path.exists
        self._orig["exists"] = real_exists

        def sim_exists(path):
            rel = env.rel(path)
            if rel is not None:
                f = env._match_fault("vanish", rel, when="exists")
                if f is not None:
                    env.fire(f, rel, at="exists")
                    return False
            return real_exists(path)

        os.path.exists = sim_exists
        real_access = os.access
        self._orig["access"] = real_access

        def sim_access(path, mode, **kw):
            rel = env.rel(path)
            if rel is not None:
                f = env._match_fault("no_access", rel)
                if f is not None:
                    env.fire(f, rel, at="access")
                    return False
            return real_access(path, mode, **kw)

        os.access = sim_access

        # allocation failure where whole documents are serialised / parsed in one piece: the json entry points, when
        # called from the system under test (the harness itself uses json for every event it emits)
        import json as _json
        import sys as _sys

        def wrap_alloc(name):
            real = getattr(_json, name)
            self._orig["alloc:" + name] = real

            def sim_alloc(*a, **k):
                caller = _sys._getframe(1).f_code.co_filename
                if "/hta/" not in caller or env.cur_op < 0:
                    return real(*a, **k)
                site = "json." + name
                n = env.count_io("@alloc", site)
                env.log("alloc_site", site=site, call=n)
                f = env._match_fault("alloc_fail", "@alloc", site=site, call=n)
                if f is not None:
                    env.fire(f, "@alloc", at=site, call=n)
                    raise MemoryError()
                return real(*a, **k)

            setattr(_json, name, sim_alloc)

        for name in ("dumps", "dump", "loads", "load"):
            wrap_alloc(name)

        # names of temporary files come from the plan, not from os.urandom (a fault placed on such a path must
        # find the same name when the plan is executed again)
        import tempfile

        class _Names:
            def __init__(self, seed: int) -> None:
                self.rng = Rng(seed).fork("tempnames")

            def __iter__(self):
                return self

            def __next__(self) -> str:
                return "".join("abcdefghijklmnopqrstuvwxyz0123456789_"[self.rng.below(37)] for _ in range(8))

        self._names_cls = _Names
        real_candidates = tempfile._get_candidate_names
        tempfile._get_candidate_names = lambda: tempfile._name_sequence if env.active else real_candidates()

        # operations on directory entries: every call on a path of the workspace is a logged fault point
        import shutil

        def wrap_fsop(mod, name):
            real = getattr(mod, name)
            self._orig["fsop:" + name] = real

            def sim_fsop(*a, **k):
                if env.cur_op < 0 or k.get("dir_fd") is not None or k.get("src_dir_fd") is not None or k.get("dst_dir_fd") is not None:
                    return real(*a, **k)   # relative to a directory handle (inside shutil.rmtree): the outer call is the point
                rels = [env.rel(x) for x in a[:2] if isinstance(x, (str, bytes, os.PathLike))]
                rels = [r for r in rels if r is not None]
                if not rels:
                    return real(*a, **k)
                rel = rels[-1]   # the destination of a rename / move, the path of everything else
                n = env.count_io(rel, "fsop:" + name)
                env.log("fs_op", fsop=name, path=rel, call=n)
                f = env._match_fault("fsop_fail", rel, fsop=name, call=n)
                if f is not None:
                    env.fire(f, rel, at=name, call=n)
                    eno = getattr(errno, str(f.get("errno", "EPERM")), errno.EPERM)
                    raise OSError(eno, os.strerror(eno), rel)
                f = env._match_fault("kill_before_fsop", rel, fsop=name, call=n)
                if f is not None:
                    env.fire(f, rel, at=name, call=n)
                    env.kill_now(rel)
                out = real(*a, **k)
                if name in ("copyfile", "copy") and len(a) >= 2:
                    dst = os.fspath(a[1])
                    env.stamp(os.path.join(dst, os.path.basename(os.fspath(a[0]))) if os.path.isdir(dst) else dst)
                f = env._match_fault("kill_after_fsop", rel, fsop=name, call=n)
                if f is not None:
                    env.fire(f, rel, at=name, call=n)
                    env.kill_now(rel)
                return out

            setattr(mod, name, sim_fsop)

        for name in ("replace", "rename", "remove", "unlink", "rmdir", "mkdir", "makedirs"):
            wrap_fsop(os, name)
        for name in ("move", "copyfile", "copy", "copy2", "rmtree"):
            wrap_fsop(shutil, name)
        self._installed = True
        self._after_configure()

    def real_open(self, *a: Any, **k: Any):
        return self._orig.get("open", builtins.open)(*a, **k)

    def real_listdir(self, p: str) -> List[str]:
        return self._orig.get("listdir", os.listdir)(p)

    def real_exists(self, p: str) -> bool:
        return self._orig.get("exists", os.path.exists)(p)

    # -- file objects --------------------------------------------------------------------------
    def _open(self, real_open, file, rel: str, mode: str, a: tuple, k: dict):
        writing = any(c in mode for c in "wax+")
        cls = "w" if writing else "r"
        key = f"{cls}:{rel}"
        open_k = self.open_counts.get(key, 0)
        self.open_counts[key] = open_k + 1
        f = self._match_fault("vanish", rel, when="open", open_k=open_k) if not writing else None
        if f is not None:
            self.fire(f, rel, at="open", open_k=open_k)
            raise FileNotFoundError(errno.ENOENT, os.strerror(errno.ENOENT), os.fspath(file))
        f = self._match_fault("open_eacces", rel, open_k=open_k, cls=cls)
        if f is not None:
            self.fire(f, rel, at="open", open_k=open_k)
            eno = getattr(errno, str(f.get("errno", "EACCES")), errno.EACCES)
            raise OSError(eno, os.strerror(eno), os.fspath(file))
        fh = real_open(file, mode, *a, **k)
        self.log("file_open", path=rel, mode=cls, open_k=open_k)
        px = _FileProxy(self, fh, rel, cls, open_k)
        if writing:
            ap = os.path.abspath(os.fspath(file))
            object.__setattr__(px, "_abs", ap)
            self._open_writes[id(px)] = ap
        return px

    def count_io(self, rel: str, what: str) -> int:
        d = self.io_counts.setdefault(rel, {})
        n = d.get(what, 0)
        d[what] = n + 1
        return n


class _FileProxy:
    """Thin proxy around a real file object: counts calls and consults the fault plan."""

    def __init__(self, env: SimEnv, fh: Any, rel: str, cls: str, open_k: int) -> None:
        object.__setattr__(self, "_env", env)
        object.__setattr__(self, "_fh", fh)
        object.__setattr__(self, "_rel", rel)
        object.__setattr__(self, "_cls", cls)
        object.__setattr__(self, "_open_k", open_k)
        object.__setattr__(self, "_reads", 0)
        object.__setattr__(self, "_writes", 0)
        object.__setattr__(self, "_bytes", 0)
        object.__setattr__(self, "_closed_logged", False)
        object.__setattr__(self, "_abs", None)

    # reads ---------------------------------------------------------------------------------------
    def _before_read(self) -> None:
        env, rel = self._env, self._rel
        n = self._reads
        object.__setattr__(self, "_reads", n + 1)
        f = env._match_fault("read_eio", rel, open_k=self._open_k, call=n)
        if f is not None:
            env.fire(f, rel, at="read", call=n, open_k=self._open_k)
            if f.get("exc") == "MemoryError":
                raise MemoryError()   # the buffer for the file's content could not be allocated
            eno = getattr(errno, str(f.get("errno", "EIO")), errno.EIO)
            raise OSError(eno, os.strerror(eno))

    def read(self, *a):
        self._before_read()
        return self._fh.read(*a)

    def read1(self, *a):
        self._before_read()
        return self._fh.read1(*a)

    def readinto(self, b):
        self._before_read()
        return self._fh.readinto(b)

    def readline(self, *a):
        self._before_read()
        return self._fh.readline(*a)

    def readlines(self, *a):
        self._before_read()
        return self._fh.readlines(*a)

    def peek(self, *a):
        return self._fh.peek(*a)

    def __iter__(self):
        return self

    def __next__(self):
        self._before_read()
        line = self._fh.readline()
        if not line:
            raise StopIteration
        return line

    # writes --------------------------------------------------------------------------------------
    def write(self, data):
        env, rel = self._env, self._rel
        n = self._writes
        object.__setattr__(self, "_writes", n + 1)
        for kind in ("write_enospc", "write_eio", "kill"):
            f = env._match_fault(kind, rel, open_k=self._open_k, call=n)
            if f is None:
                continue
            if kind == "write_eio":
                env.fire(f, rel, at="write", call=n)
                raise OSError(errno.EIO, os.strerror(errno.EIO))
            part = data[: len(data) // 2]
            if part:
                self._fh.write(part)
            try:
                self._fh.flush()
            except Exception:  # noqa: BLE001
                pass
            if kind == "write_enospc":
                env.fire(f, rel, at="write", call=n, kept=len(part))
                raise OSError(errno.ENOSPC, os.strerror(errno.ENOSPC))
            env.fire(f, rel, at="write", call=n, kept=len(part))
            env.kill_now(rel)
        object.__setattr__(self, "_bytes", self._bytes + len(data))
        return self._fh.write(data)

    def writelines(self, lines):
        for ln in lines:
            self.write(ln)

    def flush(self):
        return self._fh.flush()

    def close(self):
        if not self._closed_logged:
            object.__setattr__(self, "_closed_logged", True)
            self._env.log("file_close", path=self._rel, mode=self._cls, reads=self._reads, writes=self._writes)
        try:
            return self._fh.close()
        finally:
            if self._abs is not None:
                self._env._open_writes.pop(id(self), None)
                self._env.stamp(self._abs)

    def __enter__(self):
        self._fh.__enter__()
        return self

    def __exit__(self, *exc):
        self.close()
        return False

    def __getattr__(self, name):
        return getattr(self._fh, name)

    def __setattr__(self, name, value):
        setattr(self._fh, name, value)
