"""Registry of checks: which profile, which batches, how many runs per tier, what the
evidence says about them."""
from __future__ import annotations

from typing import Any, Dict

GENERATOR_ASSUMPTIONS = [
    "generated traces are well-formed in the sense of the properties' quantifiers: events of one host thread properly nested, a correlation id on at most one host call and one device activity, positive device stream ids, first entry of a file a host operator, kernels of one stream never overlap",
    "profiler-step annotations carry the same names on all ranks of a world and sit on host threads only; GPU-side annotations are generated under other names",
    "no event argument is literally named 'rank'",
    "fractional timestamps are multiples of 1/8 us (exact in binary floating point) and non-zero durations in fractional worlds are >= 1 us",
    "the reference model is derived from the bytes on disk, never from the generator",
    "a clean batch is evidence, not proof: schedules, worlds and fault points are sampled, not enumerated",
]


def _specs() -> Dict[str, Dict[str, Any]]:
    from .profiles import loader
    specs: Dict[str, Dict[str, Any]] = {}
    loader_rule = ("one evaluation = one simulated run: a generated world of 1-12 rank files (json / json.gz), 1-3 interpreter "
                   "sessions each under a zygote with its own PYTHONHASHSEED, 1-3 load operations per session "
                   "(TraceAnalysis / Trace.load_traces / parse_traces / parse_single_rank; dir, dict or list; pool on/off, "
                   "cpu count, free memory, tape-driven worker assignment and completion order) and, in the fault batch, "
                   "one injected file fault; every loaded row is compared with a reference loader over json.loads of the "
                   "bytes on disk. distinct_nontrivial = number of distinct event-log digests among runs in which at "
                   "least one load returned frames that the oracle compared row by row")
    for pid in ("C01", "C02", "C12"):
        specs[pid] = {
            "id": pid, "stream": "loader", "profile": loader, "props": [pid], "level": "exploration",
            "batches": [
                {"name": "fault-free", "args": {"faulty": False}, "runs": {"quick": 160, "thorough": 3000}},
                {"name": "faults", "args": {"faulty": True}, "runs": {"quick": 80, "thorough": 1500}},
            ],
            "rule": loader_rule,
            "assumptions": GENERATOR_ASSUMPTIONS,
            "expected_probes": ["fractional_world", "more_than_8_ranks", "worker_reused", "pool_of_size_1",
                                "completion_out_of_order", "trim_removed_rows", "linked_rows",
                                "link_partner_absent", "restart_sessions"],
        }
    return specs


_CACHE: Dict[str, Dict[str, Any]] = {}


def get_spec(check_id: str) -> Dict[str, Any]:
    global _CACHE
    if not _CACHE:
        _CACHE = _specs()
    return _CACHE[check_id]


def all_ids():
    global _CACHE
    if not _CACHE:
        _CACHE = _specs()
    return sorted(_CACHE)
