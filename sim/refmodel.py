"""Executable reference models (pure Python over json documents; no pandas, no hta).

ref_parse / ref_links / ref_iterations / ref_trim / ref_load : the reference loader for
C01, C02 and C12 (DESIGN.md section 6).  Ground truth is always derived from the trace
document that is on disk when the operation runs, never from the generator.
"""
from __future__ import annotations

import math
import re
from fractions import Fraction
from typing import Any, Dict, List, Optional, Set, Tuple

SYNC_DEVICE_NAMES = ("Event Sync", "Context Sync")
STEP_RE = re.compile(r"ProfilerStep\s*#\s*(\d+)")


def _is_missing(v: Any) -> bool:
    return v is None or (isinstance(v, float) and math.isnan(v))


def _frac(v: Any) -> Fraction:
    if isinstance(v, float):
        return Fraction(v)  # exact binary value
    return Fraction(int(v))


class RefRow(dict):
    __slots__ = ()


class RefFile:
    def __init__(self, doc: Dict[str, Any], rounding: bool = True) -> None:
        """rounding=False: the session ran with HTA_DISABLE_NS_ROUNDING=1 (timestamps stay fractional)."""
        events = doc.get("traceEvents", [])
        # the time column is "fractional" when any entry carries a non-integer JSON number as
        # ts or no ts at all (the column then is a float column); integral values are unchanged
        # by the rounding, so only genuinely fractional ones matter.
        self.frac = rounding and any((isinstance(e.get("ts"), float) or "ts" not in e or e.get("ts") is None) for e in events)
        self.rows: Dict[int, Dict[str, Any]] = {}
        for i, e in enumerate(events):
            if _is_missing(e.get("dur")) or _is_missing(e.get("cat")):
                continue
            if e.get("cat") == "Trace":
                continue
            args = e.get("args") if isinstance(e.get("args"), dict) else {}
            stream = args.get("stream", -1)
            try:
                stream = int(stream)
            except (ValueError, TypeError):
                stream = -1
            corr = args.get("correlation", -1)
            ts = _frac(e["ts"])
            dur = _frac(e["dur"])
            if self.frac:
                ts2 = Fraction(math.ceil(ts))
                end2 = Fraction(math.floor(ts + dur))
                dur2 = end2 - ts2
            else:
                ts2, dur2 = ts, dur
            name = e.get("name")
            device = (stream >= 0 and corr >= 0) or name in SYNC_DEVICE_NAMES
            self.rows[i] = {
                "id": i, "name": name, "cat": e.get("cat"), "pid": e.get("pid"), "tid": e.get("tid"),
                "ts": ts2, "dur": dur2, "orig_ts": ts, "orig_end": ts + dur,
                "stream": stream, "correlation": corr, "device": device,
            }
        self.rank_meta = None
        di = doc.get("distributedInfo")
        if isinstance(di, dict) and "rank" in di:
            self.rank_meta = di["rank"]

    def min_ts(self) -> Optional[Fraction]:
        return min((r["ts"] for r in self.rows.values()), default=None)

    def steps(self) -> List[Dict[str, Any]]:
        """Profiler-step annotation rows (host side)."""
        return [r for r in self.rows.values()
                if isinstance(r["name"], str) and r["name"].startswith("ProfilerStep") and not r["device"]]

    def step_names(self) -> Set[str]:
        return {r["name"] for r in self.rows.values()
                if isinstance(r["name"], str) and "ProfilerStep" in r["name"]}


def ref_links(rows: Dict[int, Dict[str, Any]], present: Optional[Set[int]] = None) -> Dict[int, int]:
    """C02: id -> expected index_correlation among the present rows."""
    ids = set(rows) if present is None else present
    by_corr: Dict[Any, Dict[str, List[int]]] = {}
    for i in ids:
        r = rows[i]
        if r["correlation"] == -1:
            continue
        side = "d" if r["device"] else "h"
        by_corr.setdefault(r["correlation"], {"h": [], "d": []})[side].append(i)
    out: Dict[int, int] = {}
    for i in ids:
        r = rows[i]
        c = r["correlation"]
        if c == -1:
            out[i] = -1
            continue
        if c < 0:
            out[i] = None  # outside the property's domain (negative id other than -1)
            continue
        opp = by_corr[c]["h" if r["device"] else "d"]
        same = by_corr[c]["d" if r["device"] else "h"]
        if len(opp) == 1 and len(same) == 1:
            out[i] = opp[0]
        elif len(opp) == 0:
            out[i] = 0
        else:
            out[i] = None  # ill-formed input (an id on several events of one side): unchecked
    return out


def ref_iterations(rf: RefFile, links: Dict[int, int]) -> Dict[int, Optional[int]]:
    """C12: id -> expected iteration (None = not checked, see DESIGN.md scope note)."""
    steps = []
    for s in rf.steps():
        m = STEP_RE.match(s["name"])
        if m:
            steps.append((s["ts"], s["ts"] + s["dur"], int(m.group(1))))
    out: Dict[int, Optional[int]] = {}

    def host_iter(ts: Fraction) -> Optional[int]:
        nums = {n for (a, b, n) in steps if a <= ts < b}
        if not nums:
            return -1
        if len(nums) == 1:
            return next(iter(nums))
        return None  # overlapping steps with different numbers: outside the property

    for i, r in rf.rows.items():
        if r["stream"] < 0:
            if r["device"]:
                out[i] = None  # sync events on stream -1: which rule applies is not settled
            else:
                out[i] = host_iter(r["ts"])
    for i, r in rf.rows.items():
        if r["stream"] > 0:
            ln = links.get(i)
            if ln is None:
                out[i] = None
            elif ln > 0:
                partner = rf.rows[ln]
                out[i] = out.get(ln) if partner["stream"] < 0 else None
            else:
                out[i] = -1
        elif r["stream"] == 0:
            out[i] = None
    return out


def ref_trim(files: Dict[int, RefFile], include_last: bool) -> Dict[int, Set[int]]:
    """C12: rank -> set of event ids present after a full load."""
    names: Set[str] = set()
    for rf in files.values():
        names |= rf.step_names()
    out: Dict[int, Set[int]] = {}
    for rank, rf in files.items():
        if len(names) < 2:
            out[rank] = set(rf.rows)
            continue
        steps = [r for r in rf.rows.values() if r["name"] in names and not r["device"]]
        if not steps:
            out[rank] = None  # a rank without steps in a world with steps: outside the generator's promise
            continue
        last_start = max(s["ts"] for s in steps)
        last_end = max(s["ts"] + s["dur"] for s in steps)
        keep: Set[int] = set()
        kept_corr: Set[Any] = set()
        for i, r in rf.rows.items():
            if r["device"]:
                continue
            ok = (r["ts"] <= last_end) if include_last else (r["ts"] < last_start)
            if ok:
                keep.add(i)
                if r["correlation"] != -1:
                    kept_corr.add(r["correlation"])
        for i, r in rf.rows.items():
            if r["device"] and r["correlation"] in kept_corr:
                keep.add(i)
        out[rank] = keep
    return out


def ambiguous_last_step(rf: RefFile) -> bool:
    """A step name carried by several annotation rows with different spans (a second thread that repeats the
    steps, the device-side copy Kineto writes with GPU annotations on): "the last step begins / ends" then has
    no single meaning, so the trim is not judged for this rank (iteration numbers still are)."""
    spans: Dict[str, Set[Tuple[Fraction, Fraction]]] = {}
    for r in rf.steps():
        spans.setdefault(r["name"], set()).add((r["ts"], r["ts"] + r["dur"]))
    return any(len(v) > 1 for v in spans.values())


def ref_load(files: Dict[int, RefFile], mode: str, include_last: bool) -> Dict[int, Dict[str, Any]]:
    """Expected frames: rank -> {"rows": {id: row}, "present": set | None, "shift": Fraction}.
    Each expected row has ts, dur, end, name, cat, pid, tid, stream, correlation, link, iteration."""
    full = mode in ("ta", "full")
    shift = Fraction(0)
    if full:
        mins = [rf.min_ts() for rf in files.values() if rf.min_ts() is not None]
        shift = min(mins) if mins else Fraction(0)
    present = ref_trim(files, include_last) if full else {r: set(rf.rows) for r, rf in files.items()}
    out: Dict[int, Dict[str, Any]] = {}
    for rank, rf in files.items():
        links_all = ref_links(rf.rows)  # computed in the parser over the whole file
        iters = ref_iterations(rf, links_all)
        pres = present[rank]
        trim_unjudged = bool(full and pres is not None and ambiguous_last_step(rf))
        if trim_unjudged:
            pres = set(rf.rows)
        links_present = ref_links(rf.rows, pres) if pres is not None else links_all
        rows: Dict[int, Dict[str, Any]] = {}
        for i in (pres if pres is not None else rf.rows):
            r = rf.rows[i]
            ts = r["ts"] - shift
            rows[i] = {"ts": ts, "dur": r["dur"], "end": ts + r["dur"], "name": r["name"], "cat": r["cat"],
                       "pid": r["pid"], "tid": r["tid"], "stream": r["stream"], "correlation": r["correlation"],
                       "link": links_present.get(i), "link_all": links_all.get(i), "iteration": iters.get(i),
                       "device": r["device"]}
        out[rank] = {"rows": rows, "present": pres, "shift": shift, "frac": rf.frac, "trim_unjudged": trim_unjudged}
    return out


def num_eq(observed: Any, expected: Fraction) -> bool:
    if observed is None or isinstance(observed, str):
        return False
    try:
        return Fraction(observed) == expected
    except (TypeError, ValueError):
        return False
