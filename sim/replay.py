"""Replay files and plan minimisation (DESIGN.md 4.6).

A replay file is the complete plan (world documents, sessions, environments, tapes, faults,
operations) plus the violation signature.  Replaying executes the plan again and must show
the same signature.  Minimisation re-executes candidate plans for real and keeps a
candidate only when the same (property, signature) is still reported.
"""
from __future__ import annotations

import copy
import hashlib
import json
import os
import time
from typing import Any, Callable, Dict, List, Optional

from . import driver

REPLAY_DIR = os.environ.get("VERIF_REPLAY_DIR") or os.path.join(driver.VERIF_DIR, "replays")


def _has_sig(spec: Dict[str, Any], plan: Dict[str, Any], info: Dict[str, Any], sig: str) -> Optional[Dict[str, Any]]:
    ex = driver.execute_plan(info, plan)
    res = spec["profile"].check(plan, ex, set(spec["props"]))
    if res.harness:
        return None
    for v in res.violations:
        if v["property"] == spec["id"] and v["sig"] == sig:
            return v
    return None


def save_replay(spec: Dict[str, Any], plan: Dict[str, Any], sig: str, violation: Optional[Dict[str, Any]],
                note: str = "", stats: Optional[Dict[str, Any]] = None) -> str:
    os.makedirs(REPLAY_DIR, exist_ok=True)
    h = hashlib.sha256(sig.encode()).hexdigest()[:8]
    path = os.path.join(REPLAY_DIR, f"{spec['id']}-s{plan.get('seed', 0)}-{plan.get('batch', 'b')}-r{plan.get('run', 0)}-{h}.json")
    doc = {"format": 1, "check": spec["id"], "signature": sig, "violation": violation, "note": note,
           "shrink": stats or {}, "plan": plan}
    with open(path, "w") as fh:
        json.dump(doc, fh, indent=1, default=str)
    return path


def plan_size(plan: Dict[str, Any]) -> Dict[str, int]:
    return {
        "sessions": len(plan["sessions"]),
        "ops": sum(len(s["ops"]) for s in plan["sessions"]),
        "faults": sum(len(s.get("pre", [])) + len(s.get("env", {}).get("faults", [])) for s in plan["sessions"]),
        "files": len(plan["world"]["files"]),
        "entries": sum(len(f["doc"]["traceEvents"]) for f in plan["world"]["files"]),
    }


def _fix_file_refs(plan: Dict[str, Any]) -> None:
    names = {f["name"] for f in plan["world"]["files"]}
    ranks = {f.get("rank") for f in plan["world"]["files"]}
    for s in plan["sessions"]:
        for o in s["ops"]:
            if isinstance(o.get("files"), dict):
                o["files"] = {r: p for r, p in o["files"].items() if p in names}
                if not o["files"]:
                    o["via"] = "dir"
                    o.pop("files")
            elif isinstance(o.get("files"), list):
                o["files"] = [p for p in o["files"] if p in names]
                if not o["files"]:
                    o["via"] = "dir"
                    o.pop("files")
            if isinstance(o.get("order"), list):
                o["order"] = [r for r in o["order"] if r in ranks]
        s["pre"] = [p for p in s.get("pre", []) if p.get("path") in names or p.get("kind") == "stale_dir"]


def minimise(spec: Dict[str, Any], plan: Dict[str, Any], sig: str, info: Dict[str, Any], budget_s: float
             ) -> (Dict[str, Any], Dict[str, Any]):
    t0 = time.time()
    tried = [0]
    best = copy.deepcopy(plan)
    v0 = _has_sig(spec, best, info, sig)
    if v0 is None:
        return best, {"reproduced": False, "tried": 1}

    def left() -> bool:
        return time.time() - t0 < budget_s

    def attempt(cand: Dict[str, Any]) -> bool:
        nonlocal best
        if not left():
            return False
        tried[0] += 1
        try:
            ok = _has_sig(spec, cand, info, sig) is not None
        except Exception:  # noqa: BLE001
            ok = False
        if ok:
            best = cand
        return ok

    before = plan_size(best)
    changed = True
    rounds = 0
    while changed and left() and rounds < 4:
        rounds += 1
        changed = False
        # 1. drop sessions
        i = 0
        while i < len(best["sessions"]) and len(best["sessions"]) > 1 and left():
            cand = copy.deepcopy(best)
            del cand["sessions"][i]
            if attempt(cand):
                changed = True
            else:
                i += 1
        # 2. drop operations
        for si in range(len(best["sessions"])):
            oi = 0
            while oi < len(best["sessions"][si]["ops"]) and left():
                if len(best["sessions"][si]["ops"]) <= 1 and len(best["sessions"]) > 1:
                    break
                if len(best["sessions"][si]["ops"]) <= 1:
                    break
                cand = copy.deepcopy(best)
                del cand["sessions"][si]["ops"][oi]
                if attempt(cand):
                    changed = True
                else:
                    oi += 1
        # 3. drop faults
        for si in range(len(best["sessions"])):
            for key in ("pre",):
                fi = 0
                while fi < len(best["sessions"][si].get(key, [])) and left():
                    cand = copy.deepcopy(best)
                    del cand["sessions"][si][key][fi]
                    if attempt(cand):
                        changed = True
                    else:
                        fi += 1
            fi = 0
            while fi < len(best["sessions"][si].get("env", {}).get("faults", [])) and left():
                cand = copy.deepcopy(best)
                del cand["sessions"][si]["env"]["faults"][fi]
                if attempt(cand):
                    changed = True
                else:
                    fi += 1
        # 4. drop rank files
        fi = 0
        while fi < len(best["world"]["files"]) and len(best["world"]["files"]) > 1 and left():
            cand = copy.deepcopy(best)
            del cand["world"]["files"][fi]
            _fix_file_refs(cand)
            if attempt(cand):
                changed = True
            else:
                fi += 1
        # 5. zero the tapes, simplify the environment
        for si in range(len(best["sessions"])):
            env = best["sessions"][si].get("env", {})
            if any(any(t) for t in env.get("tapes", [])) and left():
                cand = copy.deepcopy(best)
                cand["sessions"][si]["env"]["tapes"] = []
                if attempt(cand):
                    changed = True
        # 6. drop trace entries (delta debugging; entry 0 stays: the first event of a file is a host operator)
        for fi in range(len(best["world"]["files"])):
            n = len(best["world"]["files"][fi]["doc"]["traceEvents"])
            chunk = max(1, (n - 1) // 2)
            while chunk >= 1 and left():
                pos = 1
                while pos < len(best["world"]["files"][fi]["doc"]["traceEvents"]) and left():
                    cand = copy.deepcopy(best)
                    evs = cand["world"]["files"][fi]["doc"]["traceEvents"]
                    del evs[pos:pos + chunk]
                    if len(evs) >= 1 and attempt(cand):
                        changed = True
                    else:
                        pos += chunk
                if chunk == 1:
                    break
                chunk = max(1, chunk // 2)
    stats = {"reproduced": True, "tried": tried[0], "before": before, "after": plan_size(best),
             "seconds": round(time.time() - t0, 1)}
    return best, stats


def minimise_and_save(spec: Dict[str, Any], plan: Dict[str, Any], sig: str, host: driver.SimHost,
                      budget_s: float = 90.0) -> str:
    info = host.info()
    small, stats = minimise(spec, plan, sig, info, budget_s)
    v = _has_sig(spec, small, info, sig)
    note = "" if v is not None else "NOT REPRODUCED on re-execution (harness nondeterminism?)"
    return save_replay(spec, small, sig, v, note=note, stats=stats)


def replay_file(path: str, verbose: bool = True) -> int:
    from . import checks
    doc = json.load(open(path))
    spec = checks.get_spec(doc["check"])
    if doc["plan"].get("hash_seeds"):
        driver.set_hash_seeds(0, explicit=doc["plan"]["hash_seeds"])
    with driver.SimHost(debug=bool(os.environ.get("VERIF_DEBUG"))) as host:
        ex = driver.execute_plan(host.info(), doc["plan"])
        res = spec["profile"].check(doc["plan"], ex, set(spec["props"]))
    if res.harness:
        print(f"HARNESS PROBLEM: {res.harness[0][:500]}")
        return 2
    hit = [v for v in res.violations if v["property"] == doc["check"] and v["sig"] == doc["signature"]]
    others = [v for v in res.violations if v not in hit]
    if verbose:
        print(f"replay {path}: digest={ex['digest'][:16]} plan size={plan_size(doc['plan'])}")
        for v in others:
            print(f"  (also) property={v['property']} sig={v['sig']}")
    if hit:
        print(f"VIOLATION property={doc['check']} replay={path}")
        print(f"  signature={doc['signature']} detail={json.dumps(hit[0]['detail'], default=str)[:600]}")
        return 1
    print(f"replay {path}: signature {doc['signature']} NOT reproduced")
    return 0
