"""Deterministic simulation with fault injection for HolisticTraceAnalysis (see /verif/DESIGN.md)."""
