"""Registry of checks: which profile, which batches, how many runs per tier, what the
evidence says about them."""
from __future__ import annotations

from typing import Any, Dict

GENERATOR_ASSUMPTIONS = [
    "generated traces are well-formed in the sense of the properties' quantifiers: events of one host thread properly nested, a correlation id on at most one host call and one device activity, positive device stream ids, first entry of a file a host operator, kernels of one stream never overlap",
    "profiler-step annotations carry the same names on all ranks of a world and sit on host threads only; GPU-side annotations are generated under other names",
    "no event argument is literally named 'rank'",
    "a rank file is one process driving one device: all device activities of a file carry the same device id",
    "fractional timestamps are multiples of 1/8 us (exact in binary floating point) and non-zero durations in fractional worlds are >= 1 us",
    "the reference model is derived from the bytes on disk, never from the generator",
    "a clean batch is evidence, not proof: schedules, worlds and fault points are sampled, not enumerated",
]


HUGE_LINKS = {"wide_ops": -1, "ranks": 1, "steps": 2, "ops_per_step": 2, "max_depth": 2, "flow_p": 0.0,
              "meta_noise": False, "order": "grouped", "indent": None, "fractional": False, "tiny_events": False,
              "boundary": False, "base_ts": 1000, "no_rank_meta": False, "duplicate_device": False}


def _specs() -> Dict[str, Dict[str, Any]]:
    from .profiles import loader
    specs: Dict[str, Dict[str, Any]] = {}
    loader_rule = ("one evaluation = one simulated run: a generated world of 1-12 rank files (json / json.gz), 1-3 interpreter "
                   "sessions each under a zygote with its own PYTHONHASHSEED, 1-3 load operations per session "
                   "(TraceAnalysis / Trace.load_traces / parse_traces / parse_single_rank; dir, dict or list; pool on/off, "
                   "cpu count, free memory, tape-driven worker assignment and completion order) and, in the fault batch, "
                   "one injected file fault; every loaded row is compared with a reference loader over json.loads of the "
                   "bytes on disk. distinct_nontrivial = number of distinct event-log digests among runs in which at "
                   "least one load returned frames that the oracle compared row by row")
    from .profiles.symtab import HUGE_VOCAB as symtab_huge
    for pid in ("C01", "C02", "C12"):
        specs[pid] = {
            "id": pid, "stream": "loader", "profile": loader, "props": [pid], "level": "exploration",
            "batches": [
                {"name": "fault-free", "args": {"faulty": False}, "runs": {"quick": 160, "thorough": 30000}},
                {"name": "faults", "args": {"faulty": True}, "runs": {"quick": 160, "thorough": 15000}},
                {"name": "hugevocab", "args": {"faulty": False, "overrides": dict(symtab_huge)},
                 "runs": {"quick": 1 if pid == "C01" else 0, "thorough": 8 if pid == "C01" else 0}},
                # one rank with more than 32,768 launches (host calls with a correlation id) under one operator
                {"name": "hugelinks", "args": {"faulty": False, "overrides": dict(HUGE_LINKS)},
                 "runs": {"quick": 1 if pid == "C02" else 0, "thorough": 8 if pid == "C02" else 3}},
            ],
            "rule": loader_rule,
            "assumptions": GENERATOR_ASSUMPTIONS,
            "expected_probes": ["fractional_world", "more_than_8_ranks", "worker_reused", "pool_of_size_1",
                                "completion_out_of_order", "trim_removed_rows", "linked_rows",
                                "link_partner_absent", "restart_sessions", "tool_rewritten_file"],
        }
    from .profiles import symtab
    specs["C11"] = {
        "id": "C11", "stream": "symtab", "profile": symtab, "props": ["C11"], "level": "exploration",
        "batches": [
            {"name": "history", "args": {"kind": "history"}, "runs": {"quick": 200, "thorough": 40000}},
            {"name": "decode", "args": {"kind": "decode"}, "runs": {"quick": 120, "thorough": 20000}},
            {"name": "env", "args": {"kind": "env"}, "runs": {"quick": 96, "thorough": 8000}},
            # two ranks with 17,000 operator names of their own each: more than 32,768 symbols in the table
            {"name": "hugevocab", "args": {"kind": "decode", "hugevocab": True}, "runs": {"quick": 1, "thorough": 8}},
        ],
        "rule": ("three kinds of simulated run. history: a seeded sequence of 2-10 symbol-table operations (add_symbols, "
                 "add_symbols_mp on a lock-step fork pool whose tape interleaves the workers' individual queue puts, clone, "
                 "combine, create_from_symbol_id_map, cached-series reads) checked step by step against a list+dict model "
                 "(exact arrival order reconstructed from the simulator's log). decode: multi-rank loads through the pool / "
                 "sequentially / parse_single_rank permutations; every row must decode to its file's strings. env: one world "
                 "loaded and analysed by a battery of up to 18 public getters in 3-4 sessions that differ only in "
                 "PYTHONHASHSEED, pool on/off, cpu count and tape; canonicalised results must be equal. "
                 "distinct_nontrivial = distinct event-log digests among runs where an oracle compared a non-empty observable"),
        "assumptions": GENERATOR_ASSUMPTIONS + [
            "env comparison: ids decoded to strings, rows order-insensitive, integers exact, floats to relative 1e-9",
            "getters that raise in every session (same exception class) are counted as compared-equal and reported as probes getter_raised:*",
        ],
        "expected_probes": ["puts_interleaved", "same_symbol_from_two_workers", "numbering_differs",
                            "add_mp_exact_order_checked", "completion_out_of_order"],
    }
    from .profiles import cp
    cp_assume = GENERATOR_ASSUMPTIONS + [
        "critical-path worlds are causally consistent: a device activity starts no earlier than its launch call starts, a synchronising call returns no earlier than the work it waits for",
        "an analysis that raises or reports failure is a matter of C08 (not claimed): such runs are counted (probes analysis_raised / analysis_unsuccessful) and not evaluated; if no analysis succeeds in a whole batch the check exits 2",
    ]
    specs["C09"] = {
        "id": "C09", "stream": "cp09", "profile": cp, "props": ["C09"], "level": "exploration",
        "batches": [{"name": "histories", "args": {"kind": "c09"}, "runs": {"quick": 360, "thorough": 40000}}],
        "rule": ("one evaluation = one simulated session over a causally consistent generated world: load, 1-2 critical-path "
                 "analyses (annotation window / instance range / env flags), then a history of recompute, re-weight k edges "
                 "(speed-up, slow-down, zero, set) + recompute, deepcopy and continue on the copy, look at the original again; "
                 "after every computation the path is checked for connectivity, maximal total weight (independent "
                 "topological-order DP), exact events / edges sets and, on unedited graphs, the makespan bound. "
                 "distinct_nontrivial = distinct event-log digests among runs with at least one checked computation"),
        "assumptions": cp_assume,
        "expected_probes": ["analysis_succeeded", "reweighting_moved_the_path", "deepcopy", "path_through_sync_edge",
                            "zero_weight_launch_edges_present"],
        "precondition_probe": "analysis_succeeded",
    }
    specs["C19"] = {
        "id": "C19", "stream": "cp19", "profile": cp, "props": ["C19"], "level": "exploration",
        "batches": [
            {"name": "fault-free", "args": {"kind": "c19", "faulty": False}, "runs": {"quick": 140, "thorough": 20000}},
            {"name": "faults", "args": {"kind": "c19", "faulty": True}, "runs": {"quick": 100, "thorough": 12000}},
            # fault-point enumeration: `slots` consecutive runs share a base plan; slot j puts one fault at the
            # j-th (file, open, call) x kind point of the first save / the first restore
            {"name": "enum-save", "args": {"kind": "c19", "enum": "save"}, "slots": 128,
             "runs": {"quick": 2 * 128, "thorough": 100 * 128}},
            {"name": "enum-restore", "args": {"kind": "c19", "enum": "restore"}, "slots": 32,
             "runs": {"quick": 2 * 32, "thorough": 100 * 32}},
            # two faults in one history: a re-save into the same directory fails before it touches the archive,
            # later one stored byte inside a member of the surviving archive is flipped
            {"name": "double", "args": {"kind": "c19", "double": True}, "runs": {"quick": 60, "thorough": 6000}},
        ],
        "rule": ("one evaluation = one simulated run: analysis in session A, then 1-4 save / restore cycles in which each "
                 "restore happens in the same session, in a new interpreter under the same zygote, or in a new interpreter "
                 "under a different PYTHONHASHSEED (so with a different symbol numbering); absolute and relative out_dir, "
                 "reused out_dir, breakdown before or after the save; fault batch: ENOSPC / EIO / kill inside a write of "
                 "save, EIO inside a read of restore, kill right after a save. Oracle: every attribute of the restored "
                 "graph equals the saved one, recomputation gives the same total, breakdown and summary equal the "
                 "original's. distinct_nontrivial = distinct event-log digests among runs with a checked restore"),
        "assumptions": cp_assume + ["after a failed or killed save nothing is required of that archive; a restore of it may raise"],
        "expected_probes": ["analysis_succeeded", "restore_checked", "restore_under_other_hashseed",
                            "recompute_on_restored_graph", "save_acknowledged"],
        "precondition_probe": "restore_checked",
    }
    from .profiles import callgraph
    cg_rule = ("one evaluation = one simulated run: a generated world (1-3 ranks, one or several host threads, autograd thread "
               "with / without backward annotations, all launch patterns, operators with up to 300 kernels, more than 127 events) "
               "and 1-2 sessions each issuing a history of 2-7 calls: CallGraph(trace, ranks) for one / all ranks, "
               "get_frequent_cuda_kernel_sequences with seeded operator names / min_pattern_len / top_k, "
               "get_gpu_kernels_with_user_annotations, decode_symbol_ids, other getters as noise. After every build the eight "
               "stack columns of the shared frame are checked against the tree (parent of linked device activities, depth, "
               "height, kernel aggregates, backward-thread linking) and against the first build of the same session. "
               "distinct_nontrivial = distinct event-log digests among runs with at least one checked build")
    cg_assume = GENERATOR_ASSUMPTIONS + [
        "the parent of a host event is taken from the tool (that is C03's subject); zero-duration host events, for which C03 is known to be wrong on the pinned tree, occur only as isolated top-level operators of the autograd thread at the closing instant of a backward window",
        "sync events on stream -1 are left out of the device-parent clause",
    ]
    specs["C13"] = {
        "id": "C13", "stream": "callgraph", "profile": callgraph, "props": ["C13"], "level": "exploration",
        "batches": [{"name": "histories", "args": {}, "runs": {"quick": 220, "thorough": 30000}},
                    {"name": "big", "args": {"big": True}, "runs": {"quick": 12, "thorough": 1500}},
                    {"name": "huge", "args": {"huge": True}, "runs": {"quick": 0, "thorough": 6}}],
        "rule": cg_rule, "assumptions": cg_assume,
        "expected_probes": ["second_build", "build_after_another_ranks_build", "more_than_127_events",
                            "more_than_127_kernels_under_one_operator", "backward_linking_checked",
                            "linked_device_rows_checked"],
    }
    specs["C16"] = {
        "id": "C16", "stream": "callgraph", "profile": callgraph, "props": ["C16"], "level": "exploration",
        "batches": [{"name": "histories", "args": {}, "runs": {"quick": 220, "thorough": 30000}},
                    {"name": "big", "args": {"big": True}, "runs": {"quick": 12, "thorough": 1500}},
                    {"name": "faults", "args": {"faulty": True}, "runs": {"quick": 60, "thorough": 6000}}],
        "rule": cg_rule + "; C16: the returned pattern table (patterns, counts, CPU / GPU durations, row order) is recomputed from the tool's own tree for the same arguments, and the n-th call must equal the first call with the same arguments; fault batch: ENOSPC / EIO inside the write of the overlay file",
        "assumptions": cg_assume + ["operator names are chosen so that they match host operator names only (some worlds carry names with glob / regex / NA / separator syntax, asked for verbatim)",
                                    "runs in which two kernels of one operator start at the same instant under different names are skipped (either order is allowed)"],
        "expected_probes": ["patterns_found", "repeated_call_same_arguments", "second_build",
                            "more_than_127_kernels_under_one_operator"],
    }
    from .profiles import files
    specs["C20"] = {
        "id": "C20", "stream": "files", "profile": files, "props": ["C20"], "level": "exploration",
        "batches": [
            {"name": "fault-free", "args": {"faulty": False}, "runs": {"quick": 160, "thorough": 20000}},
            {"name": "faults", "args": {"faulty": True}, "runs": {"quick": 80, "thorough": 10000}},
            {"name": "enum-writers", "args": {"enum": True}, "slots": 64,
             "runs": {"quick": 3 * 64, "thorough": 200 * 64}},
        ],
        "rule": ("one evaluation = one simulated run over a generated world in both file formats: session A loads the directory "
                 "and issues 1-4 writer operations (generate_trace_with_counters with every series selection / rank subset / "
                 "suffix, critical-path overlay with all option combinations and the show-zero-weight flag, write_trace / "
                 "read_trace between formats, update_trace_rank with ranks up to 4095, create_rank_to_trace_dict); then two "
                 "new interpreters discover and load the directory under different listdir orders. Every written file is "
                 "read back by the harness's byte-level reader and by the tool's own reader; prefix preservation, permitted "
                 "edits only, markers, flow pairs, rank discovery, equality of the two next-session loads. Fault batch: "
                 "ENOSPC / EIO / kill inside a write call of a writer. distinct_nontrivial = distinct event-log digests "
                 "among runs with at least one checked file or discovery"),
        "assumptions": GENERATOR_ASSUMPTIONS + [
            "every complete event carries an args object (as Kineto writes them); the overlay addresses args of critical events",
            "overlay output directories are sub-directories of the workspace, so overlays are not rediscovered as rank files",
            "files that record no rank are generated, but where discovery puts them is not checked",
        ],
        "expected_probes": ["json_source_counters_file", "counter_events_appended", "overlay_all_events_kept",
                            "overlay_all_edges", "overlay_with_sync_edges", "sibling_wins_the_collision", "rank_ge_10",
                            "format_changed_by_write_trace", "directory_order_changed_the_winner"],
    }
    return specs


_CACHE: Dict[str, Dict[str, Any]] = {}


def get_spec(check_id: str) -> Dict[str, Any]:
    global _CACHE
    if not _CACHE:
        _CACHE = _specs()
    return _CACHE[check_id]


def all_ids():
    global _CACHE
    if not _CACHE:
        _CACHE = _specs()
    return sorted(_CACHE)
