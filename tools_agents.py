"""Prepares scratch worktrees of /repo and prompt files for the independent sub-agents that seed
property-breaking changes (see DESIGN.md 13.5).  Each agent gets only the text of one property
and its own worktree under /tmp/wt - nothing from /verif.

usage: tools_agents.py <suffix> <focus.json>     (focus.json: {"C01": "additional requirement", ...})
"""
import json
import os
import subprocess
import sys

COMMON = r'''You are working in a scratch git worktree of the Python library facebookresearch/HolisticTraceAnalysis (HTA), a pandas-based
library that parses PyTorch/Kineto profiler traces. Your worktree is {WT}. Work ONLY inside {WT} and the output directory
{OUT} (create it). Do NOT read, list or write anything under /verif, /repo or /root.

Environment: Python is /venv/bin/python (pandas 3.0, numpy 2.x, networkx 3.x; no network). IMPORTANT: `import hta` normally
resolves to another checkout through an editable install, so ALWAYS run python / pytest with the environment variable
PYTHONPATH={WT} and check once that `python -c "import hta; print(hta.__file__)"` prints a path under {WT}.
Do NOT use `git stash` (the stash is shared with other worktrees of the same repository and other people are working in
them right now). To test the unchanged tree, save your change with `git -C {WT} diff > {OUT}/patch.diff` and toggle it with
`git -C {WT} apply -R {OUT}/patch.diff` / `git -C {WT} apply {OUT}/patch.diff`.

A semantic property that should hold for HTA:

{PROPERTY}

YOUR TASK: produce ONE realistic change to the library source (files under {WT}/hta/) that BREAKS this property while
 (a) the code still imports and runs, and
 (b) no currently passing test of the existing suite starts failing. The suite has known failures (many data files are
     emptied), so compare before/after: run
       cd {WT} && PYTHONPATH={WT} /venv/bin/python -m pytest -q -p no:cacheprovider --timeout=900 --continue-on-collection-errors --junitxml={OUT}/before.xml
     once BEFORE your change and the same with after.xml AFTER it (each run takes about 90-150 s), and verify that every test
     that passed before still passes.

The change should be the kind of bug a developer could plausibly introduce (a refactor, an optimisation, a cache, an
off-by-one, a wrong dtype, a wrong join key, an ordering assumption, a missing reset, a changed default, error handling that
swallows too much). It must need something SPECIFIC to manifest and must NOT be something that any ordinary single use on a
typical trace exposes at once.

ADDITIONAL REQUIREMENT FOR THIS TASK: {FOCUS}

Trace file format reminder (Chrome trace JSON as written by Kineto), minimal example:
  {"schemaVersion": 1, "distributedInfo": {"backend": "nccl", "rank": 0, "world_size": 1}, "traceEvents": [
    {"ph": "X", "cat": "cpu_op", "name": "aten::add", "pid": 100, "tid": 100, "ts": 1000, "dur": 50, "args": {"External id": 1}},
    {"ph": "X", "cat": "user_annotation", "name": "ProfilerStep#1", "pid": 100, "tid": 100, "ts": 1100, "dur": 500, "args": {}},
    {"ph": "X", "cat": "cuda_runtime", "name": "cudaLaunchKernel", "pid": 100, "tid": 100, "ts": 1110, "dur": 5, "args": {"correlation": 7}},
    {"ph": "X", "cat": "kernel", "name": "my_kernel", "pid": 0, "tid": 7, "ts": 1120, "dur": 30, "args": {"stream": 7, "correlation": 7, "device": 0}},
    {"ph": "X", "cat": "cuda_runtime", "name": "cudaStreamSynchronize", "pid": 100, "tid": 100, "ts": 1130, "dur": 40, "args": {"correlation": 8}},
    {"ph": "X", "cat": "cuda_sync", "name": "Stream Sync", "pid": 0, "tid": 7, "ts": 1131, "dur": 38, "args": {"stream": 7, "correlation": 8, "device": 0}} ]}
Files are named like rank-0.json or rank-0.json.gz inside a directory; `from hta.trace_analysis import TraceAnalysis;
ta = TraceAnalysis(trace_dir=d)` loads them (ta.t is the hta.common.trace.Trace object, ta.t.get_trace(rank) the DataFrame).
The first event of a file should be a cpu_op (event id 0 is never linked). Pass visualize=False to analysis getters.
Faults can be simulated in a demo by monkeypatching (e.g. builtins.open / gzip.open to raise OSError on the n-th write,
truncating a file on disk, removing a file between two calls, running a step in a subprocess and killing it).

DELIVERABLES in {OUT}/ :
  patch.diff  - output of `git -C {WT} diff` (your change only, files under hta/ only)
  demo.py     - a self-contained program that builds its own small trace file(s) in a temporary directory, exercises the
                PUBLIC API, and exits 0 when the property holds / exits non-zero with a message when it is violated. It must
                FAIL with your change applied and PASS on the unchanged worktree: verify both, always with PYTHONPATH={WT}.
  notes.md    - what the change is, why it breaks the property, exactly what it needs in order to manifest, and the
                before/after test comparison you ran (numbers of passed tests).
Leave your change applied in the worktree when you finish. Finish with a short summary of the change.
'''


def main():
    suffix, focus_file = sys.argv[1], sys.argv[2]
    focus = json.load(open(focus_file))
    props = {json.loads(l)["id"]: json.loads(l) for l in open("/verif/properties.jsonl")}
    os.makedirs("/tmp/wt", exist_ok=True)
    for pid, f in focus.items():
        p = props[pid]
        ptxt = (f"Property {pid}: {p['title']}\n\nStatement: {p['statement']}\n\nHolds: {p['quantifier']['text']}\n\n"
                f"Code anchors (files where the mechanisms live): {', '.join(p['anchors']['files'])}\n"
                f"Mechanisms: {'; '.join(m['name'] + ' (' + m['where'] + ')' for m in p['anchors']['mechanism'])}\n"
                f"Observable at: {'; '.join(p['anchors'].get('observe_at') or [])}\n")
        wt = f"/tmp/wt/{pid}{suffix}"
        subprocess.run(["git", "-C", "/repo", "worktree", "add", "-q", "--detach", wt, "HEAD"], check=True)
        t = COMMON.replace("{WT}", wt).replace("{OUT}", wt + "_out").replace("{PROPERTY}", ptxt).replace("{FOCUS}", f)
        open(f"{wt}.prompt.txt", "w").write(t)
        print("prepared", wt)


if __name__ == "__main__":
    main()
