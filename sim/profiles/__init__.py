"""Per-property workload profiles: plan generators and oracles."""
from __future__ import annotations

from typing import Any, Dict, List


class Result:
    """What an oracle returns for one executed plan."""

    def __init__(self) -> None:
        self.violations: List[Dict[str, Any]] = []
        self.oracle_evals = 0          # individual comparisons made
        self.nontrivial = False        # at least one oracle ran on a non-empty observable
        self.probes: Dict[str, int] = {}
        self.states: set = set()       # abstract session states reached
        self.harness: List[str] = []   # harness problems (exit 2 material)
        self.notes: List[str] = []

    def probe(self, name: str, n: int = 1) -> None:
        self.probes[name] = self.probes.get(name, 0) + n

    def violate(self, prop: str, sig: str, detail: Dict[str, Any], session: int = -1, op: int = -1) -> None:
        # keep one violation per (property, signature) and execution: the first is the witness
        for v in self.violations:
            if v["property"] == prop and v["sig"] == sig:
                v["count"] += 1
                return
        self.violations.append({"property": prop, "sig": sig, "detail": detail, "session": session,
                                "op": op, "count": 1})
