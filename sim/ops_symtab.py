"""Symbol-table history operations (C11 a)."""
from __future__ import annotations

from typing import Any, Dict, List

from . import simenv
from .session import State, op


def _snapshot(tbl: Any, read_series: bool) -> Dict[str, Any]:
    snap: Dict[str, Any] = {
        "table": list(tbl.sym_table),
        "index": sorted([[k, int(v)] for k, v in tbl.sym_index.items()]),
    }
    if read_series:
        s_idx = tbl.get_sym_index_series()
        s_tab = tbl.get_sym_table_series()
        snap["index_series"] = sorted([[str(k), int(v)] for k, v in s_idx.to_dict().items()])
        snap["table_series"] = [str(x) for x in s_tab.tolist()]
    return snap


@op("symtab_history")
def op_symtab_history(state: State, a: Dict[str, Any], env: simenv.SimEnv) -> Any:
    from hta.common.trace_symbol_table import TraceSymbolTable

    tables: Dict[str, Any] = state.tables
    out: List[Dict[str, Any]] = []
    for step_no, st in enumerate(a["steps"]):
        env.log("symtab_step", n=step_no, t=st["t"])
        t = st["t"]
        rec: Dict[str, Any] = {"t": t}
        try:
            if t == "new":
                tables[st["dst"]] = TraceSymbolTable()
                key = st["dst"]
            elif t == "add":
                tables[st["table"]].add_symbols(list(st["symbols"]))
                key = st["table"]
            elif t == "add_mp":
                tables[st["table"]].add_symbols_mp([list(x) for x in st["lists"]])
                key = st["table"]
            elif t == "clone":
                tables[st["dst"]] = TraceSymbolTable.clone(tables[st["src"]])
                key = st["dst"]
            elif t == "combine":
                tables[st["dst"]] = TraceSymbolTable.combine_symbol_tables([tables[s] for s in st["srcs"]])
                key = st["dst"]
            elif t == "from_map":
                tables[st["dst"]] = TraceSymbolTable.create_from_symbol_id_map(dict(st["map"]))
                key = st["dst"]
            elif t == "series":
                key = st["table"]
            else:
                raise ValueError(f"unknown symtab step {t}")
            rec["snap"] = _snapshot(tables[key], bool(st.get("read_series", t == "series")))
            rec["key"] = key
        except Exception as exc:  # noqa: BLE001
            if type(exc).__name__ in ("SimDeadlock", "SimHarnessError"):
                raise
            rec["exc"] = type(exc).__name__
            rec["msg"] = str(exc)[:200]
        out.append(rec)
    return {"steps": out}
