"""Canonical, JSON-able forms of what the simulated sessions observe (DESIGN.md appendix A):
frames become lists of row dicts with symbol ids decoded to strings, numbers become Python
ints (when integral) or floats, NaN / NA become None."""
from __future__ import annotations

import hashlib
import json
import math
from typing import Any, Dict, Iterable, List, Optional, Sequence


def canon_value(v: Any) -> Any:
    if v is None:
        return None
    if isinstance(v, bool):
        return v
    if isinstance(v, int):
        return v
    if isinstance(v, float):
        if math.isnan(v):
            return None
        if math.isinf(v):
            return "inf" if v > 0 else "-inf"
        if v.is_integer() and abs(v) < 2 ** 62:
            return int(v)
        return v
    if isinstance(v, str):
        return v
    try:
        import numpy as np
        import pandas as pd
        if v is pd.NA or v is pd.NaT:
            return None
        if isinstance(v, np.bool_):
            return bool(v)
        if isinstance(v, np.integer):
            return int(v)
        if isinstance(v, np.floating):
            return canon_value(float(v))
        if isinstance(v, np.ndarray):
            return [canon_value(x) for x in v.tolist()]
        if isinstance(v, (pd.Timestamp, pd.Timedelta)):
            return str(v)
    except ImportError:
        pass
    if isinstance(v, (list, tuple)):
        return [canon_value(x) for x in v]
    if isinstance(v, (set, frozenset)):
        return sorted((canon_value(x) for x in v), key=lambda x: json.dumps(x, sort_keys=True, default=str))
    if isinstance(v, dict):
        return {str(k): canon_value(x) for k, x in v.items()}
    if hasattr(v, "value") and hasattr(v, "name") and type(v).__module__ != "builtins":
        # Enum
        return canon_value(v.value)
    return str(v)


def frame_rows(df: Any, cols: Optional[Sequence[str]] = None, sym_table: Optional[List[str]] = None,
               decode: Iterable[str] = ("name", "cat"), with_index: bool = True) -> List[Dict[str, Any]]:
    """Rows of a DataFrame as dicts.  ``decode`` columns holding integer symbol ids are
    replaced by their strings (None when out of range)."""
    if df is None:
        return []
    cols = [c for c in (cols if cols is not None else list(df.columns)) if c in df.columns]
    decode = set(decode) if sym_table is not None else set()
    out: List[Dict[str, Any]] = []
    idx = list(df.index)
    data = {c: df[c].tolist() for c in cols}
    n_sym = len(sym_table) if sym_table is not None else 0
    for i in range(len(idx)):
        row: Dict[str, Any] = {}
        if with_index:
            row["_idx"] = canon_value(idx[i])
        for c in cols:
            v = canon_value(data[c][i])
            if c in decode and isinstance(v, int):
                v = sym_table[v] if 0 <= v < n_sym else None
            row[c] = v
        out.append(row)
    return out


def digest(obj: Any) -> str:
    return hashlib.sha256(json.dumps(obj, sort_keys=True, default=str).encode()).hexdigest()


def approx_equal(a: Any, b: Any, rel: float = 1e-9) -> bool:
    """Structural equality with a relative tolerance on floats."""
    if isinstance(a, float) or isinstance(b, float):
        if a is None or b is None or isinstance(a, str) or isinstance(b, str):
            return a == b
        if isinstance(a, bool) or isinstance(b, bool):
            return a == b
        fa, fb = float(a), float(b)
        if fa == fb:
            return True
        return abs(fa - fb) <= rel * max(abs(fa), abs(fb), 1e-300)
    if isinstance(a, dict) and isinstance(b, dict):
        return a.keys() == b.keys() and all(approx_equal(a[k], b[k], rel) for k in a)
    if isinstance(a, list) and isinstance(b, list):
        return len(a) == len(b) and all(approx_equal(x, y, rel) for x, y in zip(a, b))
    return a == b
