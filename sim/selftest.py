"""Self-tests of the machinery itself (DESIGN.md 4.5, 6):

determinism - every run is executed several times: in fresh zygotes, with 1 and with 16
              driver workers, with the driver itself under PYTHONHASHSEED=0 and under another
              value; plan digests and event-log digests must be identical everywhere.
sensitivity - each mutant of sim/mutants.py (a small source change that breaks one property)
              is applied to a scratch copy of /repo/hta; the check of that property must report
              a violation within its quick budget, and the unmutated copy must pass.
"""
from __future__ import annotations

import concurrent.futures as cf
import hashlib
import json
import multiprocessing
import os
import shutil
import subprocess
import sys
import tempfile
import time
from typing import Any, Dict, List, Optional, Tuple

from . import checks, driver, runner

_INFO: Optional[Dict[str, Any]] = None


def _init(info: Dict[str, Any]) -> None:
    global _INFO
    _INFO = info


def _digest_one(args: Tuple[str, str, int, int]) -> Tuple[str, str, str]:
    cid, batch_name, run, seed = args
    spec = checks.get_spec(cid)
    batch = next(b for b in spec["batches"] if b["name"] == batch_name)
    plan = runner.make_plan(spec, seed, batch, run, "quick")
    pd = hashlib.sha256(json.dumps(plan, sort_keys=True, default=str).encode()).hexdigest()[:20]
    ex = driver.execute_plan(_INFO, plan)
    st = "|".join(s["status"] for s in ex["sessions"])
    return f"{cid}/{batch_name}/{run}", pd, ex["digest"][:24] + ":" + st


def digests(ids: List[str], runs: int, jobs: int, seed: int) -> Dict[str, List[str]]:
    tasks = []
    for cid in ids:
        spec = checks.get_spec(cid)
        per_batch = max(1, runs // len(spec["batches"]))
        for b in spec["batches"]:
            # never more than the quick tier runs of a batch (the heavy batches have one run there)
            for r in range(min(per_batch, max(1, b["runs"]["quick"])) if b["runs"]["quick"] else 0):
                tasks.append((cid, b["name"], r, seed))
    out: Dict[str, List[str]] = {}
    with driver.SimHost() as host:
        ctx = multiprocessing.get_context("fork")
        with cf.ProcessPoolExecutor(max_workers=jobs, mp_context=ctx, initializer=_init, initargs=(host.info(),)) as pool:
            for key, pd, xd in pool.map(_digest_one, tasks, chunksize=1):
                out[key] = [pd, xd]
    return out


def _spawn(ids: List[str], runs: int, jobs: int, seed: int, hashseed: str, extra_env: Optional[Dict[str, str]] = None) -> Dict[str, List[str]]:
    env = dict(os.environ)
    env["PYTHONHASHSEED"] = hashseed
    env.update(extra_env or {})
    cmd = [sys.executable, "-m", "sim.cli", "digests", "--ids", ",".join(ids), "--runs", str(runs),
           "--jobs", str(jobs), "--seed", str(seed)]
    p = subprocess.run(cmd, cwd=driver.VERIF_DIR, env=env, capture_output=True, text=True, timeout=7200)
    if p.returncode != 0:
        raise RuntimeError(f"digests subprocess failed ({p.returncode}): {p.stderr[-800:]}")
    return json.loads(p.stdout.strip().splitlines()[-1])


def determinism(ids: Optional[List[str]], runs: Optional[int]) -> int:
    ids = ids or checks.all_ids()
    streams = {}
    for cid in ids:  # checks that share a stream and profile run identical plans: test one of them
        streams.setdefault((checks.get_spec(cid)["stream"]), cid)
    ids = sorted(streams.values())
    runs = runs or 300
    seed = int(os.environ.get("VERIF_SEED", "0"))
    t0 = time.time()
    configs = [("16 workers, driver PYTHONHASHSEED=0", runs, 16, "0"),
               ("16 workers, driver PYTHONHASHSEED=4242", runs, 16, "4242"),
               ("1 worker, driver PYTHONHASHSEED=77", max(6, runs // 10), 1, "77"),
               ("5 workers, driver PYTHONHASHSEED=random", max(12, runs // 4), 5, "random", {}),
               # a second pass with the first configuration: the zygotes serve the sessions in another order
               ("16 workers, driver PYTHONHASHSEED=0, again", runs, 16, "0", {})]
    configs = [c if len(c) == 5 else c + ({},) for c in configs]
    results = []
    for name, n, jobs, hs, extra in configs:
        t1 = time.time()
        results.append((name, _spawn(ids, n, jobs, seed, hs, extra)))
        print(f"[determinism] {name}: {len(results[-1][1])} runs in {time.time() - t1:.1f}s", flush=True)
    base_name, base = results[0]
    bad = 0
    compared = 0
    for name, res in results[1:]:
        for key, (pd, xd) in res.items():
            if key not in base:
                continue
            compared += 1
            if base[key][0] != pd:
                bad += 1
                print(f"PLAN DIFFERS {key}: [{base_name}] {base[key][0]} vs [{name}] {pd}")
            elif base[key][1] != xd:
                bad += 1
                print(f"EVENT LOG DIFFERS {key}: [{base_name}] {base[key][1]} vs [{name}] {xd}")
    nonok = sum(1 for v in base.values() if not v[1].endswith("ok") and "ok" not in v[1] and "killed" not in v[1])
    summary = {"checks": ids, "runs_base": len(base), "pairs_compared": compared, "mismatches": bad,
               "configs": [c[0] for c in configs], "wall_s": round(time.time() - t0, 1), "seed": seed,
               "runs_with_harness_status": nonok}
    os.makedirs(runner.EVIDENCE_DIR, exist_ok=True)
    with open(os.path.join(runner.EVIDENCE_DIR, "selftest-determinism.json"), "w") as fh:
        json.dump(summary, fh, indent=1)
    print(f"[determinism] {json.dumps(summary)}")
    return 0 if bad == 0 else 1


# -- sensitivity ----------------------------------------------------------------------------------
def _apply_mutant(root: str, m: Dict[str, Any]) -> None:
    for ed in m["edits"]:
        p = os.path.join(root, ed["file"])
        s = open(p).read()
        if s.count(ed["old"]) != 1:
            raise RuntimeError(f"mutant {m['id']}: pattern occurs {s.count(ed['old'])} times in {ed['file']}")
        open(p, "w").write(s.replace(ed["old"], ed["new"]))
        # a mutant must still compile: one that does not would be "caught" by nothing and missed for the wrong reason
        compile(open(p).read(), p, "exec")


def _run_check_on(repo: str, cid: str, runs: Optional[int]) -> Tuple[int, str]:
    env = dict(os.environ)
    env["VERIF_REPO"] = repo
    env["VERIF_SHRINK_S"] = "0"
    env["VERIF_REPLAY_DIR"] = os.path.join(repo, "replays")
    cmd = [sys.executable, "-m", "sim.cli", "check", cid, "--tier", "quick", "--no-evidence"]
    if runs:
        cmd += ["--runs", str(runs)]
    p = subprocess.run(cmd, cwd=driver.VERIF_DIR, env=env, capture_output=True, text=True, timeout=3000)
    return p.returncode, p.stdout[-3000:] + p.stderr[-500:]


def sensitivity(ids: Optional[List[str]]) -> int:
    from . import mutants
    todo = [m for m in mutants.MUTANTS if not ids or m["id"] in ids or m["property"] in ids]
    t0 = time.time()
    base = tempfile.mkdtemp(prefix="hta-mut-")
    report = []
    failures = 0
    try:
        for m in todo:
            root = os.path.join(base, m["id"])
            os.makedirs(root)
            shutil.copytree(os.path.join(driver.REPO, "hta"), os.path.join(root, "hta"))
            try:
                _apply_mutant(root, m)
                caught_by = []
                for cid in m["checks"]:
                    code, out = _run_check_on(root, cid, m.get("runs"))
                    sigs = sorted({ln.split("signature=")[1].split()[0] for ln in out.splitlines() if "signature=" in ln})
                    caught_by.append({"check": cid, "exit": code, "signatures": sigs[:6]})
                ok = any(c["exit"] == 1 for c in caught_by)
                report.append({"mutant": m["id"], "property": m["property"], "what": m["what"], "caught": ok, "by": caught_by})
                print(f"[sensitivity] {m['id']:<34} {'CAUGHT' if ok else 'MISSED'} {[(c['check'], c['exit'], c['signatures'][:2]) for c in caught_by]}", flush=True)
                if not ok:
                    failures += 1
            except Exception as exc:  # noqa: BLE001
                failures += 1
                report.append({"mutant": m["id"], "error": f"{type(exc).__name__}: {exc}"})
                print(f"[sensitivity] {m['id']} ERROR {exc}", flush=True)
            finally:
                shutil.rmtree(root, ignore_errors=True)
    finally:
        shutil.rmtree(base, ignore_errors=True)
    path = os.path.join(runner.EVIDENCE_DIR, "selftest-sensitivity.json")
    partial = len(todo) < len(mutants.MUTANTS)
    if partial and os.path.exists(path):
        # a run over some of the mutants refreshes their entries in the last complete report
        try:
            old = json.load(open(path))
            fresh = {r["mutant"] for r in report}
            report = [r for r in old.get("report", []) if r.get("mutant") not in fresh] + report
        except Exception:  # noqa: BLE001
            pass
    summary = {"mutants": len(report), "caught": sum(1 for r in report if r.get("caught")),
               "missed": sum(1 for r in report if not r.get("caught")),
               "wall_s": round(time.time() - t0, 1), "report": report,
               "note": ("entries refreshed by a partial run: " + ", ".join(m["id"] for m in todo)) if partial else "complete run"}
    with open(path, "w") as fh:
        json.dump(summary, fh, indent=1)
    print(f"[sensitivity] this run: mutants={len(todo)} missed={failures}; report: mutants={summary['mutants']} caught={summary['caught']} missed={summary['missed']} wall={summary['wall_s']}s")
    return 0 if failures == 0 else 1
