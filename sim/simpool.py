"""SimPool / SimManager: a lock-step replacement for multiprocessing.Pool and Manager
(DESIGN.md 4.3).

Workers are *real forked processes* (they inherit the parent's state at pool creation and
nothing flows back except pickled results), but only one of them is runnable between two
scheduler decisions, and every decision (which idle worker takes the next chunk, which busy
worker advances to its next synchronisation point) is read from a choice tape supplied by
the plan.  Real timing therefore cannot influence anything.

Synchronisation points are calls on manager proxies (Queue.put/get/empty/qsize,
list.append, dict.__setitem__ ...): the worker sends the call to the parent, where it is
applied at once (the linearisation point), and stays parked until the scheduler picks it
again.
"""
from __future__ import annotations

import collections
import errno
import hashlib
import json
import os
import pickle
import struct
import sys
import traceback
from typing import Any, Callable, Dict, Iterable, List, Optional, Tuple

# set in a forked worker: (rfd, wfd, worker_index)
_WORKER: Optional[Tuple[int, int, int]] = None
# parent-side registry of managed objects
_REGISTRY: Dict[int, Any] = {}
_NEXT_OBJ = [0]


class SimDeadlock(RuntimeError):
    """The simulated program would block forever (e.g. Queue.get on an empty queue)."""


class SimHarnessError(RuntimeError):
    pass


def _send(fd: int, obj: Any) -> None:
    data = pickle.dumps(obj, protocol=pickle.HIGHEST_PROTOCOL)
    data = struct.pack("<Q", len(data)) + data
    view = memoryview(data)
    while view:
        n = os.write(fd, view)
        view = view[n:]


def _recv_exact(fd: int, n: int) -> bytes:
    chunks = []
    while n:
        b = os.read(fd, min(n, 1 << 20))
        if not b:
            raise EOFError("channel closed")
        chunks.append(b)
        n -= len(b)
    return b"".join(chunks)


def _recv(fd: int) -> Any:
    (n,) = struct.unpack("<Q", _recv_exact(fd, 8))
    return pickle.loads(_recv_exact(fd, n))


# ---------------------------------------------------------------------------------------
# managed objects
# ---------------------------------------------------------------------------------------
class _QueueImpl:
    def __init__(self, maxsize: int = 0) -> None:
        self.items: collections.deque = collections.deque()
        self.maxsize = maxsize

    def put(self, item: Any, block: bool = True, timeout: Any = None) -> None:
        if self.maxsize and len(self.items) >= self.maxsize:
            raise SimDeadlock("put on a full bounded queue")
        self.items.append(item)

    put_nowait = put

    def get(self, block: bool = True, timeout: Any = None) -> Any:
        if not self.items:
            import queue as _q
            if not block or timeout is not None:
                raise _q.Empty()
            raise SimDeadlock("Queue.get() on an empty queue would block forever")
        return self.items.popleft()

    def get_nowait(self) -> Any:
        return self.get(False)

    def empty(self) -> bool:
        return not self.items

    def qsize(self) -> int:
        return len(self.items)

    def full(self) -> bool:
        return bool(self.maxsize) and len(self.items) >= self.maxsize


class _ListImpl(list):
    pass


class _DictImpl(dict):
    pass


_PROXY_METHODS = {
    "queue": ["put", "put_nowait", "get", "get_nowait", "empty", "qsize", "full"],
    "list": ["append", "extend", "__len__", "__getitem__", "__setitem__", "pop", "insert", "__iter_list__",
             "index", "count", "remove", "reverse", "sort", "__contains__"],
    "dict": ["__getitem__", "__setitem__", "__delitem__", "__len__", "__contains__", "get", "keys_list",
             "values_list", "items_list", "update", "pop", "setdefault", "clear"],
}


def _apply(obj_id: int, method: str, args: tuple, kwargs: dict) -> Any:
    obj = _REGISTRY[obj_id]
    if method == "__iter_list__":
        return list(obj)
    if method == "keys_list":
        return list(obj.keys())
    if method == "values_list":
        return list(obj.values())
    if method == "items_list":
        return list(obj.items())
    return getattr(obj, method)(*args, **kwargs)


class SimProxy:
    """Proxy for a managed object.  In the parent it operates on the object directly; in a
    worker every call is a synchronisation point sent to the parent."""

    def __init__(self, kind: str, obj_id: int) -> None:
        self._kind = kind
        self._obj_id = obj_id

    def __reduce__(self):
        return (_rebuild_proxy, (self._kind, self._obj_id))

    def _call(self, method: str, *args: Any, **kwargs: Any) -> Any:
        from . import simenv
        if _WORKER is None:
            env = simenv.current()
            try:
                res = _apply(self._obj_id, method, args, kwargs)
            except SimDeadlock:
                raise
            if env is not None:
                env.log("proxy_call", who="parent", obj=self._obj_id, m=method, arg=simenv.short(args))
            return res
        rfd, wfd, _idx = _WORKER
        _send(wfd, ("proxy", self._obj_id, method, args, kwargs))
        tag, ok, val = _recv(rfd)
        assert tag == "ack"
        if ok:
            return val
        raise val

    # queue
    def put(self, item, block=True, timeout=None):
        return self._call("put", item)

    def put_nowait(self, item):
        return self._call("put_nowait", item)

    def get(self, *a, **kw):
        if self._kind == "dict":
            return self._call("get", *a, **kw)
        return self._call("get", *a, **kw)

    def get_nowait(self):
        return self._call("get_nowait")

    def empty(self):
        return self._call("empty")

    def qsize(self):
        return self._call("qsize")

    def full(self):
        return self._call("full")

    # list / dict
    def append(self, x):
        return self._call("append", x)

    def extend(self, xs):
        return self._call("extend", list(xs))

    def pop(self, *a):
        return self._call("pop", *a)

    def insert(self, i, x):
        return self._call("insert", i, x)

    def __len__(self):
        return self._call("__len__")

    def __getitem__(self, i):
        return self._call("__getitem__", i)

    def __setitem__(self, i, v):
        return self._call("__setitem__", i, v)

    def __delitem__(self, i):
        return self._call("__delitem__", i)

    def __contains__(self, x):
        return self._call("__contains__", x)

    def __iter__(self):
        if self._kind == "dict":
            return iter(self._call("keys_list"))
        return iter(self._call("__iter_list__"))

    def keys(self):
        return self._call("keys_list")

    def values(self):
        return self._call("values_list")

    def items(self):
        return self._call("items_list")

    def update(self, *a, **kw):
        return self._call("update", *a, **kw)

    def setdefault(self, k, d=None):
        return self._call("setdefault", k, d)

    def clear(self):
        return self._call("clear")

    def index(self, *a):
        return self._call("index", *a)

    def count(self, x):
        return self._call("count", x)

    def remove(self, x):
        return self._call("remove", x)

    def sort(self, **kw):
        return self._call("sort", **kw)

    def reverse(self):
        return self._call("reverse")


def _rebuild_proxy(kind: str, obj_id: int) -> SimProxy:
    return SimProxy(kind, obj_id)


class SimManager:
    """Stands in for multiprocessing.Manager(): objects live in the parent."""

    def __init__(self, *a: Any, **kw: Any) -> None:
        from . import simenv
        env = simenv.current()
        if env is not None:
            env.log("manager_create")

    def _new(self, kind: str, impl: Any) -> SimProxy:
        _NEXT_OBJ[0] += 1
        oid = _NEXT_OBJ[0]
        _REGISTRY[oid] = impl
        return SimProxy(kind, oid)

    def Queue(self, maxsize: int = 0) -> SimProxy:
        return self._new("queue", _QueueImpl(maxsize))

    JoinableQueue = Queue

    def list(self, seq: Iterable[Any] = ()) -> SimProxy:
        return self._new("list", _ListImpl(seq))

    def dict(self, *a: Any, **kw: Any) -> SimProxy:
        return self._new("dict", _DictImpl(*a, **kw))

    def shutdown(self) -> None:
        pass

    def start(self, *a: Any, **kw: Any) -> None:
        pass

    def __enter__(self) -> "SimManager":
        return self

    def __exit__(self, *exc: Any) -> None:
        pass


# ---------------------------------------------------------------------------------------
# the pool
# ---------------------------------------------------------------------------------------
class _RemoteError(Exception):
    """Raised in the parent when a worker's exception could not be pickled."""


def _worker_main(rfd: int, wfd: int, idx: int, initializer: Optional[Callable], initargs: tuple) -> None:
    global _WORKER
    from . import simenv
    _WORKER = (rfd, wfd, idx)
    env = simenv.current()
    if env is not None:
        env.enter_worker(idx)
    code = 0
    try:
        if initializer is not None:
            initializer(*initargs)
        while True:
            msg = _recv(rfd)
            if msg[0] == "exit":
                break
            if msg[0] != "run":
                raise SimHarnessError(f"worker got {msg[0]!r}")
            _tag, cid, payload = msg
            ok = True
            try:
                func, items, star = pickle.loads(payload)
                results = []
                for it in items:
                    results.append(func(*it) if star else func(it))
                out: Any = results
            except BaseException as exc:  # noqa: BLE001 - everything goes back to the parent
                ok = False
                out = exc
                try:
                    pickle.dumps(exc)
                except Exception:  # noqa: BLE001
                    out = _RemoteError(f"{type(exc).__name__}: {exc}")
            events = env.drain_worker_events() if env is not None else []
            try:
                _send(wfd, ("done", cid, ok, out, events))
            except Exception as exc:  # noqa: BLE001 - result not picklable
                _send(wfd, ("done", cid, False,
                            _RemoteError(f"result not picklable: {type(exc).__name__}: {exc}"), events))
    except EOFError:
        code = 0
    except BaseException:  # noqa: BLE001
        traceback.print_exc(file=sys.stderr)
        code = 70
    finally:
        os._exit(code)


class SimAsyncResult:
    def __init__(self, pool: "SimPool", run: Callable[[], Any]) -> None:
        self._pool = pool
        self._run = run
        self._done = False
        self._ok = True
        self._value: Any = None

    def _run_now(self) -> None:
        if not self._done:
            try:
                self._value = self._run()
            except BaseException as exc:  # noqa: BLE001
                self._ok = False
                self._value = exc
            self._done = True

    def _ensure(self) -> None:
        # tasks submitted one by one finish in an order the scheduler decides: when a result is asked for, pending
        # tasks of the pool run in tape order until the one asked for is done (callbacks fire in that order)
        pool = self._pool
        while not self._done:
            pend = [a for a in getattr(pool, "_pending_async", []) if not a._done]
            if self not in pend:
                pend.append(self)
            pend[pool._choose(len(pend), "async_next")]._run_now()

    def get(self, timeout: Any = None) -> Any:
        self._ensure()
        if self._ok:
            return self._value
        raise self._value

    def wait(self, timeout: Any = None) -> None:
        self._ensure()

    def ready(self) -> bool:
        self._ensure()
        return True

    def successful(self) -> bool:
        self._ensure()
        return self._ok


class SimPool:
    def __init__(self, processes: Optional[int] = None, initializer: Optional[Callable] = None,
                 initargs: tuple = (), maxtasksperchild: Optional[int] = None, context: Any = None) -> None:
        from . import simenv
        env = simenv.current()
        if env is None:
            raise SimHarnessError("SimPool used outside a simulated session")
        self._env = env
        if processes is None:
            processes = env.cpu_count
        if processes < 1:
            raise ValueError("Number of processes must be at least 1")
        self._n = int(processes)
        self._pool_no = env.next_pool_no()
        self._tape = env.pool_tape(self._pool_no)
        self._tape_pos = 0
        self._workers: List[Dict[str, Any]] = []
        self._closed = False
        self._terminated = False
        self._pending_async: List[SimAsyncResult] = []
        env.log("pool_create", pool=self._pool_no, n=self._n)
        env.stats["pool_sizes"].append(self._n)
        f = env._match_fault("fork_fail", ".", pool=self._pool_no)
        if f is not None:
            # process creation refused (process limit, no memory for the page tables): what os.fork raises
            env.fire(f, ".", at="pool_create", pool=self._pool_no)
            eno = getattr(errno, str(f.get("errno", "EAGAIN")), errno.EAGAIN)
            raise OSError(eno, os.strerror(eno))
        for i in range(self._n):
            p2c_r, p2c_w = os.pipe()
            c2p_r, c2p_w = os.pipe()
            with env.allow_fork():
                pid = os.fork()
            if pid == 0:
                try:
                    os.close(p2c_w)
                    os.close(c2p_r)
                    for w in self._workers:  # fds of earlier workers
                        os.close(w["w"])
                        os.close(w["r"])
                finally:
                    _worker_main(p2c_r, c2p_w, i, initializer, initargs)
            os.close(p2c_r)
            os.close(c2p_w)
            self._workers.append({"pid": pid, "w": p2c_w, "r": c2p_r, "tasks": 0})

    # -- scheduling ---------------------------------------------------------------------------
    def _choose(self, n_options: int, what: str) -> int:
        if n_options <= 1:
            return 0
        raw = self._tape[self._tape_pos] if self._tape_pos < len(self._tape) else 0
        self._tape_pos += 1
        c = raw % n_options
        self._env.log("choice", pool=self._pool_no, what=what, n=n_options, c=c)
        self._env.stats["choices"] += 1
        return c

    def _check_usable(self) -> None:
        if self._closed or self._terminated:
            raise ValueError("Pool not running")

    def _run_tasks(self, func: Callable, items: List[Any], chunksize: Optional[int], star: bool,
                   callback: Optional[Callable] = None, error_callback: Optional[Callable] = None
                   ) -> Tuple[List[Any], List[int], Optional[BaseException]]:
        """Run all items; returns (results in submission order, completion order of chunk ids,
        first-arrived exception or None)."""
        env = self._env
        n_items = len(items)
        if n_items == 0:
            return [], [], None
        if chunksize is None:
            chunksize, extra = divmod(n_items, self._n * 4)
            if extra:
                chunksize += 1
        chunksize = max(1, int(chunksize))
        chunks = [items[i:i + chunksize] for i in range(0, n_items, chunksize)]
        pending = collections.deque(enumerate(chunks))
        idle = list(range(self._n))
        busy: Dict[int, Dict[str, Any]] = {}
        results: Dict[int, Any] = {}
        order: List[int] = []
        first_exc: Optional[BaseException] = None
        assign: List[Tuple[int, int]] = []
        proxy_order: List[Tuple[int, str]] = []
        while pending or busy:
            while pending and idle:
                wi = idle.pop(self._choose(len(idle), "assign"))
                cid, chunk = pending.popleft()
                payload = pickle.dumps((func, chunk, star), protocol=pickle.HIGHEST_PROTOCOL)
                busy[wi] = {"cid": cid, "msg": ("run", cid, payload)}
                self._workers[wi]["tasks"] += 1
                if self._workers[wi]["tasks"] > 1:
                    env.probe("worker_reused")
                assign.append((cid, wi))
                env.log("pool_assign", pool=self._pool_no, chunk=cid, worker=wi)
            ws = sorted(busy)
            wi = ws[self._choose(len(ws), "advance")]
            w = self._workers[wi]
            _send(w["w"], busy[wi]["msg"])
            env.stats["sched_steps"] += 1
            try:
                msg = _recv(w["r"])
            except EOFError:
                raise SimHarnessError(f"pool worker {wi} died unexpectedly")
            if msg[0] == "proxy":
                _t, oid, method, args, kwargs = msg
                try:
                    val = _apply(oid, method, args, kwargs)
                    reply = ("ack", True, val)
                except SimDeadlock:
                    raise
                except BaseException as exc:  # noqa: BLE001
                    reply = ("ack", False, exc)
                from . import simenv as _se
                env.log("proxy_call", who=wi, obj=oid, m=method, arg=_se.short(args))
                proxy_order.append((wi, method))
                busy[wi]["msg"] = reply
            elif msg[0] == "done":
                _t, cid, ok, out, events = msg
                for ev in events:
                    if ev.get("ev") == "fault_fired":
                        env.fault_seen_in_worker(ev)
                    env.log_raw(ev)
                env.log("chunk_done", pool=self._pool_no, chunk=cid, worker=wi, ok=ok,
                        exc=None if ok else type(out).__name__)
                order.append(cid)
                del busy[wi]
                idle.append(wi)
                idle.sort()
                if ok:
                    results[cid] = out
                    if callback is not None and False:
                        pass
                else:
                    if first_exc is None:
                        first_exc = out
            else:
                raise SimHarnessError(f"unexpected worker message {msg[0]!r}")
        env.record_schedule(self._pool_no, assign, proxy_order, order)
        flat: List[Any] = []
        if first_exc is None:
            for cid in range(len(chunks)):
                flat.extend(results[cid])
        return flat, order, first_exc

    # -- public API ------------------------------------------------------------------------------
    def map(self, func: Callable, iterable: Iterable[Any], chunksize: Optional[int] = None) -> List[Any]:
        self._check_usable()
        self._env.log("pool_call", pool=self._pool_no, api="map")
        res, _order, exc = self._run_tasks(func, list(iterable), chunksize, False)
        if exc is not None:
            raise exc
        return res

    def starmap(self, func: Callable, iterable: Iterable[Any], chunksize: Optional[int] = None) -> List[Any]:
        self._check_usable()
        self._env.log("pool_call", pool=self._pool_no, api="starmap")
        res, _order, exc = self._run_tasks(func, [tuple(x) for x in iterable], chunksize, True)
        if exc is not None:
            raise exc
        return res

    def imap(self, func: Callable, iterable: Iterable[Any], chunksize: int = 1):
        self._check_usable()
        self._env.log("pool_call", pool=self._pool_no, api="imap")
        res, _order, exc = self._run_tasks(func, list(iterable), chunksize, False)
        if exc is not None:
            raise exc
        return iter(res)

    def imap_unordered(self, func: Callable, iterable: Iterable[Any], chunksize: int = 1):
        self._check_usable()
        self._env.log("pool_call", pool=self._pool_no, api="imap_unordered")
        self._env.probe("imap_unordered_seen")
        items = list(iterable)
        chunksize = max(1, int(chunksize or 1))
        res, order, exc = self._run_tasks(func, items, chunksize, False)
        if exc is not None:
            raise exc
        out: List[Any] = []
        for cid in order:
            out.extend(res[cid * chunksize:(cid + 1) * chunksize])
        return iter(out)

    def apply(self, func: Callable, args: tuple = (), kwds: Optional[dict] = None) -> Any:
        return self.apply_async(func, args, kwds).get()

    def apply_async(self, func: Callable, args: tuple = (), kwds: Optional[dict] = None,
                    callback: Optional[Callable] = None, error_callback: Optional[Callable] = None
                    ) -> SimAsyncResult:
        self._check_usable()
        self._env.log("pool_call", pool=self._pool_no, api="apply_async")
        kwds = kwds or {}

        def run() -> Any:
            res, _o, exc = self._run_tasks(_ApplyCall(func, kwds), [tuple(args)], 1, True)
            if exc is not None:
                if error_callback is not None:
                    error_callback(exc)
                raise exc
            if callback is not None:
                callback(res[0])
            return res[0]

        ar = SimAsyncResult(self, run)
        self._pending_async.append(ar)
        return ar

    def map_async(self, func: Callable, iterable: Iterable[Any], chunksize: Optional[int] = None,
                  callback: Optional[Callable] = None, error_callback: Optional[Callable] = None
                  ) -> SimAsyncResult:
        self._check_usable()
        self._env.log("pool_call", pool=self._pool_no, api="map_async")
        items = list(iterable)

        def run() -> Any:
            res, _o, exc = self._run_tasks(func, items, chunksize, False)
            if exc is not None:
                if error_callback is not None:
                    error_callback(exc)
                raise exc
            if callback is not None:
                callback(res)
            return res

        ar = SimAsyncResult(self, run)
        self._pending_async.append(ar)
        return ar

    def starmap_async(self, func, iterable, chunksize=None, callback=None, error_callback=None):
        items = [tuple(x) for x in iterable]
        self._check_usable()

        def run() -> Any:
            res, _o, exc = self._run_tasks(func, items, chunksize, True)
            if exc is not None:
                if error_callback is not None:
                    error_callback(exc)
                raise exc
            if callback is not None:
                callback(res)
            return res

        ar = SimAsyncResult(self, run)
        self._pending_async.append(ar)
        return ar

    def close(self) -> None:
        self._closed = True

    def join(self) -> None:
        if not (self._closed or self._terminated):
            raise ValueError("Pool is still running")
        for ar in self._pending_async:
            ar._ensure()
        self._shutdown()

    def terminate(self) -> None:
        self._terminated = True
        self._shutdown()

    def _shutdown(self) -> None:
        for w in self._workers:
            if w.get("dead"):
                continue
            try:
                _send(w["w"], ("exit",))
            except OSError:
                pass
            try:
                os.close(w["w"])
                os.close(w["r"])
            except OSError:
                pass
            try:
                os.waitpid(w["pid"], 0)
            except ChildProcessError:
                pass
            w["dead"] = True

    def __enter__(self) -> "SimPool":
        self._check_usable()
        return self

    def __exit__(self, *exc: Any) -> None:
        self.terminate()

    def __del__(self) -> None:
        try:
            if _WORKER is None:
                self._shutdown()
        except Exception:  # noqa: BLE001
            pass


class _ApplyCall:
    def __init__(self, func: Callable, kwds: dict) -> None:
        self.func = func
        self.kwds = kwds

    def __call__(self, *args: Any) -> Any:
        return self.func(*args, **self.kwds)


class SimContext:
    """What multiprocessing.get_context(...) returns inside a simulated session."""

    def __init__(self, method: Optional[str] = None) -> None:
        self._method = method or "fork"

    def Pool(self, processes=None, initializer=None, initargs=(), maxtasksperchild=None):
        return SimPool(processes, initializer, initargs, maxtasksperchild, context=self)

    def Manager(self):
        return SimManager()

    def cpu_count(self) -> int:
        from . import simenv
        return simenv.current().cpu_count

    def get_start_method(self, allow_none: bool = False) -> str:
        return self._method

    def get_context(self, method=None):
        return SimContext(method)

    def __getattr__(self, name: str) -> Any:
        from . import simenv
        env = simenv.current()
        if env is not None:
            env.log("escape", what=f"context.{name}")
            env.stats["unsimulated_concurrency"] += 1
        raise SimHarnessError(f"multiprocessing context attribute {name!r} is not simulated")


_COMPLETION_SEQ = [0]


class SimFuture:
    """Future of a simulated executor: its task runs when the scheduler picks it, which happens when some result
    of the executor is waited for (result / exception / as_completed / wait / shutdown)."""

    def __init__(self, ex: Any, run: Callable[[], Any]) -> None:
        self._ex = ex
        self._run = run
        self._state = "PENDING"
        self._value: Any = None
        self._exc: Optional[BaseException] = None
        self._callbacks: List[Callable] = []
        self._seq = -1

    def _run_now(self) -> None:
        if self._state != "PENDING":
            return
        self._state = "RUNNING"
        try:
            self._value = self._run()
        except BaseException as exc:  # noqa: BLE001
            self._exc = exc
        self._complete()

    def _execute(self) -> None:
        """Body of the unit that carries this future's task (thread executors)."""
        if self._state != "PENDING":
            return
        self._run_now()

    def _complete(self) -> None:
        self._state = "FINISHED"
        _COMPLETION_SEQ[0] += 1
        self._seq = _COMPLETION_SEQ[0]
        for cb in self._callbacks:
            try:
                cb(self)
            except Exception:  # noqa: BLE001 - as the real Future: logged and ignored
                pass

    def _drive(self) -> None:
        while self._state in ("PENDING", "RUNNING"):
            if not self._ex._step():
                raise SimHarnessError("future can never complete")

    def result(self, timeout: Any = None) -> Any:
        if self._state == "CANCELLED":
            import concurrent.futures as cf
            raise cf.CancelledError()
        self._drive()
        if self._exc is not None:
            raise self._exc
        return self._value

    def exception(self, timeout: Any = None) -> Optional[BaseException]:
        if self._state == "CANCELLED":
            import concurrent.futures as cf
            raise cf.CancelledError()
        self._drive()
        return self._exc

    def done(self) -> bool:
        return self._state in ("FINISHED", "CANCELLED")

    def running(self) -> bool:
        return self._state == "RUNNING"

    def cancelled(self) -> bool:
        return self._state == "CANCELLED"

    def cancel(self) -> bool:
        if self._state == "PENDING":
            self._state = "CANCELLED"
            return True
        return self._state == "CANCELLED"

    def add_done_callback(self, fn: Callable) -> None:
        if self.done():
            fn(self)
        else:
            self._callbacks.append(fn)


class _SimExecutorBase:
    _kind = "?"

    def _init_base(self, n: int) -> None:
        from . import simenv
        env = simenv.current()
        if env is None:
            raise SimHarnessError("simulated executor used outside a simulated session")
        self._env = env
        self._futs: List[SimFuture] = []
        self._shut = False

    def _choose(self, n: int, what: str) -> int:
        raise NotImplementedError

    def _step(self) -> bool:
        pend = [f for f in self._futs if f._state == "PENDING"]
        if not pend:
            return False
        pend[self._choose(len(pend), "future_next")]._run_now()
        return True

    def _drain(self) -> None:
        while self._step():
            pass

    def map(self, fn: Callable, *iterables: Iterable[Any], timeout: Any = None, chunksize: int = 1):
        futs = [self.submit(fn, *args) for args in zip(*iterables)]

        def gen():
            for f in futs:
                yield f.result()
        return gen()

    def __enter__(self):
        return self

    def __exit__(self, *exc: Any) -> None:
        self.shutdown(wait=True)


class SimExecutor(_SimExecutorBase):
    """Facade for concurrent.futures.ProcessPoolExecutor on the SimPool core: every submitted call is one task of a
    lock-step forked worker; the order in which submitted calls complete is the tape's."""
    _kind = "process"

    def __init__(self, max_workers: Optional[int] = None, mp_context: Any = None,
                 initializer: Optional[Callable] = None, initargs: tuple = (), **kw: Any) -> None:
        self._pool = SimPool(max_workers, initializer, initargs)
        self._init_base(self._pool._n)

    def _choose(self, n: int, what: str) -> int:
        return self._pool._choose(n, what)

    def submit(self, fn: Callable, *args: Any, **kwargs: Any) -> SimFuture:
        if self._shut:
            raise RuntimeError("cannot schedule new futures after shutdown")
        pool = self._pool
        pool._env.log("pool_call", pool=pool._pool_no, api="submit")

        def run() -> Any:
            res, _o, exc = pool._run_tasks(_ApplyCall(fn, kwargs), [tuple(args)], 1, True)
            if exc is not None:
                raise exc
            return res[0]

        fut = SimFuture(self, run)
        self._futs.append(fut)
        return fut

    def shutdown(self, wait: bool = True, cancel_futures: bool = False) -> None:
        self._shut = True
        if cancel_futures:
            for f in self._futs:
                f.cancel()
        self._drain()   # submitted work is carried out also with wait=False (only later)
        self._pool.terminate()


class SimThreadExecutor(_SimExecutorBase):
    """Facade for concurrent.futures.ThreadPoolExecutor (and multiprocessing.pool.ThreadPool through SimThreadPool):
    every submitted call is a unit of the session's thread scheduler (sim/simthreads.py): real threads, one runnable at
    a time, pre-empted at lock operations and at tape-chosen source lines of the system under test; at most
    max_workers tasks of one executor are in progress, started in submission order."""
    _kind = "thread"

    def __init__(self, max_workers: Optional[int] = None, thread_name_prefix: str = "",
                 initializer: Optional[Callable] = None, initargs: tuple = (), **kw: Any) -> None:
        if max_workers is not None and max_workers <= 0:
            raise ValueError("max_workers must be greater than 0")
        self._init_base(max_workers or 4)
        env = self._env
        self._n = int(max_workers or min(32, env.cpu_count + 4))
        self._sched = env.threads
        self._sched.executors.append(self)
        self._initializer = initializer
        self._initargs = initargs
        self._initialised = False
        if env.in_worker is not None:
            env.stats["unsimulated_concurrency"] += 1
            env.log("escape", what="thread pool inside a pool worker")

    def _step(self) -> bool:
        return self._sched.step()

    def submit(self, fn: Callable, *args: Any, **kwargs: Any) -> SimFuture:
        if self._shut:
            raise RuntimeError("cannot schedule new futures after shutdown")

        def run() -> Any:
            if not self._initialised:
                self._initialised = True
                if self._initializer is not None:
                    self._initializer(*self._initargs)
            return fn(*args, **kwargs)

        fut = SimFuture(self, run)
        self._futs.append(fut)
        self._sched.add(fut._execute, group=self, capacity=self._n, api="thread_submit")
        return fut

    def _finish_submitted(self) -> None:
        self._sched.run_until(lambda: all(f.done() for f in self._futs))

    def shutdown(self, wait: bool = True, cancel_futures: bool = False) -> None:
        self._shut = True
        if cancel_futures:
            for f in self._futs:
                f.cancel()
        if wait:
            self._finish_submitted()   # with wait=False the submitted work finishes later (at the latest when the operation ends)


class SimThreadPool:
    """multiprocessing.pool.ThreadPool / multiprocessing.dummy.Pool on the same task-granular scheduler."""

    def __init__(self, processes: Optional[int] = None, initializer: Optional[Callable] = None, initargs: tuple = ()) -> None:
        if processes is not None and processes < 1:
            raise ValueError("Number of processes must be at least 1")
        self._ex = SimThreadExecutor(processes, initializer=initializer, initargs=initargs)

    def map(self, func, iterable, chunksize=None):
        futs = [self._ex.submit(func, x) for x in iterable]
        return [f.result() for f in futs]

    def starmap(self, func, iterable, chunksize=None):
        futs = [self._ex.submit(func, *x) for x in iterable]
        return [f.result() for f in futs]

    def imap(self, func, iterable, chunksize=1):
        futs = [self._ex.submit(func, x) for x in iterable]
        return (f.result() for f in futs)

    def imap_unordered(self, func, iterable, chunksize=1):
        futs = [self._ex.submit(func, x) for x in iterable]
        return (f.result() for f in sim_as_completed(futs))

    def apply(self, func, args=(), kwds=None):
        return self._ex.submit(func, *args, **(kwds or {})).result()

    def apply_async(self, func, args=(), kwds=None, callback=None, error_callback=None):
        fut = self._ex.submit(func, *args, **(kwds or {}))

        def cb(f: SimFuture) -> None:
            if f._exc is not None:
                if error_callback is not None:
                    error_callback(f._exc)
            elif callback is not None:
                callback(f._value)
        fut.add_done_callback(cb)
        return _ThreadAsyncResult(fut)

    def map_async(self, func, iterable, chunksize=None, callback=None, error_callback=None):
        futs = [self._ex.submit(func, x) for x in iterable]
        return _ThreadAsyncResult(None, futs, callback, error_callback)

    def close(self):
        pass

    def join(self):
        self._ex._drain()

    def terminate(self):
        self._ex.shutdown()

    def __enter__(self):
        return self

    def __exit__(self, *exc):
        self.terminate()


class _ThreadAsyncResult:
    def __init__(self, fut: Optional[SimFuture], futs: Optional[List[SimFuture]] = None, callback=None, error_callback=None):
        self._fut, self._futs, self._cb, self._ecb = fut, futs, callback, error_callback
        self._fired = False

    def get(self, timeout=None):
        if self._fut is not None:
            return self._fut.result()
        try:
            out = [f.result() for f in self._futs]
        except BaseException as exc:  # noqa: BLE001
            if self._ecb is not None and not self._fired:
                self._fired = True
                self._ecb(exc)
            raise
        if self._cb is not None and not self._fired:
            self._fired = True
            self._cb(out)
        return out

    def wait(self, timeout=None):
        try:
            self.get()
        except BaseException:  # noqa: BLE001
            pass

    def ready(self):
        self.wait()
        return True

    def successful(self):
        try:
            self.get()
            return True
        except BaseException:  # noqa: BLE001
            return False


def sim_as_completed(fs: Iterable[Any], timeout: Any = None):
    """concurrent.futures.as_completed for simulated futures: pending tasks run in the order their executors' tapes
    decide; results are handed out in completion order."""
    fs = list(dict.fromkeys(fs))
    sim = [f for f in fs if isinstance(f, SimFuture)]
    other = [f for f in fs if not isinstance(f, SimFuture)]

    def gen():
        for f in other:
            yield f
        done = sorted([f for f in sim if f.done()], key=lambda f: f._seq)
        for f in done:
            yield f
        rest = [f for f in sim if not f.done()]
        while rest:
            before = {id(f) for f in rest if f.done()}
            # one scheduler step of one executor that still has pending work among the futures asked for
            ex = rest[0]._ex
            if not ex._step():
                raise SimHarnessError("future neither done nor pending")
            newly = sorted([f for f in rest if f.done() and id(f) not in before], key=lambda f: f._seq)
            for f in newly:
                yield f
            rest = [f for f in rest if not f.done()]
    return gen()


def sim_wait(fs: Iterable[Any], timeout: Any = None, return_when: str = "ALL_COMPLETED"):
    import concurrent.futures as cf
    fs = list(dict.fromkeys(fs))
    DoneAndNotDone = getattr(cf._base, "DoneAndNotDoneFutures")
    sim = [f for f in fs if isinstance(f, SimFuture)]

    def stop() -> bool:
        if return_when == "FIRST_COMPLETED":
            return any(f.done() for f in fs)
        if return_when == "FIRST_EXCEPTION":
            if any(isinstance(f, SimFuture) and f.done() and f._exc is not None for f in fs):
                return True
        return all(f.done() for f in fs)

    while not stop():
        pend = [f for f in sim if not f.done()]
        if not pend or not pend[0]._ex._step():
            break
    done = {f for f in fs if f.done()}
    return DoneAndNotDone(done, set(fs) - done)
