"""Loader profile: decides C01, C02, C12 (and the decode clause of C11) on simulated loader
runs: trace files on disk, fork pool under a choice tape, pool size from cpu count / free
memory, parse-only vs full load, several interpreter lives with different hash seeds,
and - in the fault batches - torn files, read errors, files vanishing between discovery
and parse, unreadable files, low memory."""
from __future__ import annotations

from fractions import Fraction
from typing import Any, Dict, List, Optional, Set

from .. import driver, refmodel, worldgen
from ..prng import Rng
from . import Result

NAME = "loader"
PROPERTIES = ["C01", "C02", "C12"]


class Workspace:
    """The driver's model of the durable state: what is really on disk."""

    def __init__(self, world: Dict[str, Any]) -> None:
        self.files: Dict[str, Dict[str, Any]] = {}
        for f in world["files"]:
            self.files[f["name"]] = {"doc": f["doc"], "torn": False, "format": f["format"]}

    def apply_pre(self, pre: List[Dict[str, Any]], events: Optional[List[Dict[str, Any]]] = None) -> None:
        for p in pre:
            if p["kind"] in ("truncate", "flip_byte") and p["path"] in self.files:
                self.files[p["path"]]["torn"] = True
            if p["kind"] == "remove":
                self.files.pop(p["path"], None)
        # a flipped byte may leave a valid document with other content: the session reports what is on disk
        for ev in events or []:
            if ev.get("ev") == "fault_fired" and ev.get("kind") == "flip_byte" and ev.get("path") in self.files:
                f = self.files[ev["path"]]
                if ev.get("valid") and isinstance(ev.get("doc"), dict) and isinstance(ev["doc"].get("traceEvents"), list) \
                        and _judgeable(ev["doc"]):
                    f["doc"] = ev["doc"]
                    f["torn"] = False
                    f["flipped"] = True
                elif ev.get("valid"):
                    # still JSON, but no longer a trace document the properties speak about (a ts turned into a
                    # string, a key renamed ...): neither "must raise" nor judgeable
                    f["torn"] = False
                    f["unjudged"] = True
                else:
                    f["torn"] = True


def _judgeable(doc: Dict[str, Any]) -> bool:
    """A document changed by a flipped byte is judged only while it still is a trace in the sense of the
    properties: every complete event has numeric ts / dur, string name / cat, integer pid-like fields
    untouched in type, and args that is a dict (or absent)."""
    def num(x: Any) -> bool:
        return isinstance(x, (int, float)) and not isinstance(x, bool)
    for e in doc["traceEvents"]:
        if not isinstance(e, dict):
            return False
        if e.get("dur") is None or e.get("cat") is None:
            continue
        if not (num(e.get("ts")) and num(e.get("dur")) and isinstance(e.get("name"), str) and isinstance(e.get("cat"), str)):
            return False
        if "args" in e and not isinstance(e["args"], dict):
            return False
        if e.get("dur") < 0:
            return False
        # the generator's promise that makes exact comparison possible: times are multiples of 1/8 us
        for key in ("ts", "dur"):
            v = e[key]
            if isinstance(v, float) and not (v * 8).is_integer():
                return False
            if abs(v) >= 2 ** 50:
                return False
        a = e.get("args") or {}
        if "correlation" in a and not isinstance(a["correlation"], int):
            return False
    return True


def gen_env(rng: Rng, n_ranks: int, faulty: bool) -> Dict[str, Any]:
    env: Dict[str, Any] = {}
    env["cpu_count"] = rng.weighted([(1, 2), (2, 3), (3, 2), (4, 3), (8, 1), (16, 2), (64, 1)])
    peak = rng.choice([1 << 20, 4 << 20, 64 << 20])
    env["tracemalloc_peak"] = peak
    # pool size for > 8 ranks is int(0.8 * free / peak): aim at 1, 2, k, "plenty"
    target = rng.weighted([(1, 2), (2, 2), (3, 2), (5, 1), (1000, 3)])
    if faulty and rng.chance(0.15):
        target = 0  # low memory: Pool(0)
    env["mem_available"] = int(target * peak / 0.8) + (peak // 2 if target else 0)
    env["tapes"] = [[rng.below(64) for _ in range(4 * n_ranks + 8)] for _ in range(4)]
    env["listdir_seed"] = rng.below(1 << 30)
    env["random_seed"] = rng.below(1 << 30)
    # the library's logger level is process-wide configuration; DEBUG enables extra code paths
    env["log_level"] = "DEBUG" if rng.chance(0.1) else "CRITICAL"
    # the session's wall clock is simulated (time.time): start phase within a second and the jumps between operations
    env["clock_seed"] = rng.fork("clock").below(1 << 30)
    env["clock_model"] = 2
    return env


def gen_load_op(rng: Rng, world: Dict[str, Any]) -> Dict[str, Any]:
    files = world["files"]
    op: Dict[str, Any] = {"op": "load"}
    op["mode"] = rng.weighted([("ta", 4), ("full", 5), ("parse", 3), ("single", 1)])
    op["via"] = rng.weighted([("dir", 5), ("dict", 3), ("list", 2)])
    op["include_last"] = rng.chance(0.4)
    op["mp"] = rng.chance(0.75)
    op["memprof"] = rng.chance(0.7)
    if op["via"] == "dict":
        sel = files if rng.chance(0.7) or len(files) == 1 else rng.sample(files, rng.randint(1, len(files)))
        op["files"] = {str(f["rank"]): f["name"] for f in sel}
        op["abs_files"] = rng.chance(0.5)
    elif op["via"] == "list":
        sel = files if rng.chance(0.7) or len(files) == 1 else rng.sample(files, rng.randint(1, len(files)))
        names = [f["name"] for f in sel]
        rng.shuffle(names)
        op["files"] = names
    if op["mode"] == "parse" and rng.chance(0.3):
        op["max_ranks"] = rng.randint(1, max(1, len(files)))
    if world["knobs"].get("fractional") and rng.chance(0.35):
        # the documented switch that keeps nanosecond-resolution timestamps unrounded
        op["environ"] = {"HTA_DISABLE_NS_ROUNDING": "1"}
    elif world["knobs"].get("fractional") and rng.chance(0.15):
        # the variable is present but does not say "1" (blank line in an env file, explicit "off"): rounding stays on
        op["environ"] = {"HTA_DISABLE_NS_ROUNDING": rng.choice(["", "0", "false", "off", "no"])}
    fr = rng.fork("first_single")
    if op["mode"] in ("parse", "full") and "max_ranks" not in op and len(files) > 1 and fr.chance(0.25):
        # the public per-rank entry point is used first on the same object (a look at one rank), then everything is
        # parsed: the symbol table is not empty when the multi-rank call starts
        avail = [f["rank"] for f in files] if op["via"] == "dir" else (
            [int(r) for r in op["files"]] if op["via"] == "dict" else
            [f["rank"] for f in files if f["name"] in op["files"]])
        avail = sorted(set(avail))
        if len(avail) > 1:
            pick = fr.sample(avail[1:], fr.randint(1, min(2, len(avail) - 1))) if fr.chance(0.8) else [avail[0]]
            op["first_single"] = pick
    if op["mode"] == "single":
        ranks = [f["rank"] for f in files] if op["via"] == "dir" else (
            [int(r) for r in op["files"]] if op["via"] == "dict" else
            [f["rank"] for f in files if f["name"] in op["files"]])
        rng.shuffle(ranks)
        op["order"] = ranks
    return op


def gen_plan(rng: Rng, tier: str, faulty: bool, profile: str = "loader",
             overrides: Optional[Dict[str, Any]] = None) -> Dict[str, Any]:
    world = worldgen.gen_world(rng.fork("world"), profile, overrides)
    n_ranks = len(world["files"])
    sessions = []
    n_sessions = rng.weighted([(1, 5), (2, 3), (3, 1)])
    ov = overrides or {}
    heavy = bool(ov.get("name_explosion") or ov.get("symbol_family") or ov.get("wide_ops", 0) > 5000 or ov.get("wide_ops") == -1)
    if heavy:
        n_sessions = 1
    for si in range(n_sessions):
        r = rng.fork(f"s{si}")
        sess: Dict[str, Any] = {"zygote": r.below(len(driver.HASH_SEEDS)), "env": gen_env(r, n_ranks, faulty),
                                "pre": [], "ops": []}
        for _ in range(1 if heavy else r.weighted([(1, 5), (2, 3), (3, 1)])):
            sess["ops"].append(gen_load_op(r, world))
        if si == 0 and not faulty and profile in ("loader", "symtab") and r.chance(0.2):
            # an earlier session rewrites the files with the tool's own writer (other format, maybe another
            # rank); this and later sessions load the rewritten copies
            rw = r.fork("rewrite")
            pre_ops: List[Dict[str, Any]] = []
            for f in world["files"]:
                stem = f["name"][: f["name"].index(".json")]
                dst = f"rw/{stem}" + (".json" if f["format"] == "gz" else ".json.gz")
                pre_ops.append({"op": "write_trace", "src": f["name"], "dst": dst})
                if rw.chance(0.3):
                    pre_ops.append({"op": "update_rank", "path": dst, "rank": f["rank"] + 1000})
            sess["ops"] = pre_ops + [dict(o, via="dir", subdir="rw", mode=("ta" if o["mode"] == "single" else o["mode"]))
                                     for o in sess["ops"]]
            for o in sess["ops"]:
                o.pop("files", None)
                o.pop("order", None)
                o.pop("max_ranks", None)
        if faulty:
            fr = r.fork("faults")
            victim = fr.choice(world["files"])["name"]
            kind = fr.weighted([("truncate", 4), ("read_eio", 4), ("vanish", 3), ("no_access", 1), ("none", 1), ("flip_byte", 3),
                                ("fork_fail", 2), ("open_fail", 1)])
            if kind in ("read_eio", "vanish", "fork_fail", "open_fail") and fr.chance(0.5):
                # the fault is a single event: the user tries again - on the same object where there is one
                retries = []
                for o in sess["ops"]:
                    if o["op"] == "load" and "mp" in o and fr.chance(0.5):
                        o["mp"] = False   # the sequential path keeps state between the files of one call
                    retries.append(o)
                    if o["op"] == "load":
                        retries.append(dict(o, retry_same_object=(o.get("mode") in ("full", "parse", "single"))))
                sess["ops"] = retries
                if len(world["files"]) > 2 and fr.chance(0.6):
                    # fail late: the files before the victim have been processed when the error arrives
                    victim = fr.choice(sorted(world["files"], key=lambda f: f["rank"])[2:])["name"]
            if kind == "flip_byte":
                sess["pre"].append({"kind": "flip_byte", "path": victim, "pos": fr.below(1 << 30),
                                    "mask": fr.choice([0x01, 0x02, 0x10, 0x20, 0x80, 0xFF])})
            if kind == "truncate":
                sess["pre"].append({"kind": "truncate", "path": victim,
                                    "fraction": fr.choice([0.0, 0.1, 0.5, 0.9, 0.99])})
            elif kind == "read_eio":
                # an I/O error on one read call: the persistent kind (EIO) or one of the transient ones
                sess["env"].setdefault("faults", []).append(
                    {"kind": "read_eio", "path": victim, "open_k": fr.choice([None, 0, 1, 2]),
                     "call": fr.choice([0, 0, 1, 2, 5]),
                     "errno": fr.choice(["EIO", "EIO", "EIO", "ESTALE", "ETIMEDOUT", "EAGAIN", "EINTR"])})
                if fr.chance(0.25):
                    # not an I/O error at all: the buffer for the content cannot be allocated
                    sess["env"]["faults"][-1]["exc"] = "MemoryError"
            elif kind == "fork_fail":
                # process creation refused while the pool is built (process limit, memory for page tables)
                sess["env"].setdefault("faults", []).append(
                    {"kind": "fork_fail", "pool": fr.choice([0, 0, 1]), "errno": fr.choice(["EAGAIN", "ENOMEM"])})
            elif kind == "open_fail":
                sess["env"].setdefault("faults", []).append(
                    {"kind": "open_eacces", "path": victim, "cls": "r", "open_k": fr.choice([None, 1, 2]),
                     "errno": fr.choice(["EMFILE", "ENFILE", "EACCES"])})
            elif kind == "vanish":
                sess["env"].setdefault("faults", []).append(
                    {"kind": "vanish", "path": victim, "when": "open", "open_k": fr.choice([0, 1, 1, 2])})
            elif kind == "no_access":
                sess["env"].setdefault("faults", []).append({"kind": "no_access", "path": victim})
        sessions.append(sess)
    return {"format": 1, "profile": NAME, "world": world, "sessions": sessions}


# ---------------------------------------------------------------------------------------------
# oracle
# ---------------------------------------------------------------------------------------------
def expected_ranks(op: Dict[str, Any], ws: Workspace, obs_files: Dict[str, str]) -> Dict[int, str]:
    """Which rank maps to which file for this load (the rank -> file mapping itself is C20's
    subject; here the tool's mapping is only cross-checked against explicit arguments)."""
    return {int(r): p for r, p in obs_files.items()}


def check_load(res: Result, props: Set[str], si: int, op: Dict[str, Any], r: Dict[str, Any],
               ws: Workspace, faults_active: bool, low_memory: bool) -> None:
    mode = op.get("mode", "ta")
    inc = bool(op.get("include_last", False))
    # TraceAnalysis always loads through the pool and with memory profiling; the flags only reach
    # Trace.load_traces / parse_traces
    uses_pool = True if mode == "ta" else bool(op.get("mp", True))
    fired = [e for e in r["events"] if e.get("ev") == "fault_fired"]
    if op.get("via", "dir") == "dir":
        sub = op.get("subdir")
        relevant = [p for p in ws.files if (p.startswith(sub + "/") if sub else "/" not in p)]
    elif isinstance(op.get("files"), dict):
        relevant = list(op["files"].values())
    else:
        relevant = list(op.get("files") or [])
    torn_present = any(ws.files[p]["torn"] for p in relevant if p in ws.files) or any(p not in ws.files for p in relevant)
    if any(ws.files[p].get("unjudged") for p in relevant if p in ws.files):
        res.probe("load_over_unjudgeable_flipped_file")
        return
    if not r["ok"]:
        if r.get("killed"):
            return
        if fired or torn_present or (low_memory and uses_pool):
            res.probe("load_raised_under_fault")
            return
        if mode == "parse" and op.get("max_ranks") == 0:
            return
        res.violate("C01", f"load-raised/{mode}/{r.get('exc')}@{r.get('where')}",
                    {"exc": r.get("exc"), "msg": r.get("msg"), "where": r.get("where"), "op": op}, si, r["i"])
        return
    obs = r["obs"]
    res.nontrivial = True
    files = expected_ranks(op, ws, obs["trace_files"])
    loaded_ranks = sorted(int(x) for x in obs["ranks"].keys())
    # which ranks must be loaded
    want = sorted(files)
    if mode == "parse" and op.get("max_ranks", -1) not in (-1, None):
        want = want[: op["max_ranks"]]
    if mode == "single":
        want = sorted(set(int(x) for x in op.get("order", want)) & set(files))
    if loaded_ranks != want:
        res.violate("C01", f"ranks-loaded/{mode}", {"loaded": loaded_ranks, "expected": want}, si, r["i"])
        return
    # a rank whose bytes are not a valid trace document must not appear as a loaded frame
    for rank in loaded_ranks:
        f = ws.files.get(files[rank])
        if f is None or f["torn"]:
            res.violate("C01", f"invalid-file-loaded/{mode}", {"rank": rank, "file": files[rank]}, si, r["i"])
            return
    rounding = (op.get("environ") or {}).get("HTA_DISABLE_NS_ROUNDING") != "1"
    if not rounding:
        res.probe("ns_rounding_disabled")
    rfs = {rank: refmodel.RefFile(ws.files[files[rank]]["doc"], rounding) for rank in loaded_ranks}
    ref_mode = mode if mode in ("ta", "full") else "parse"
    exp = refmodel.ref_load(rfs, ref_mode, inc)
    full = ref_mode in ("ta", "full")
    if any(rf.frac for rf in rfs.values()):
        res.probe("fractional_world")
    if len(loaded_ranks) > 8:
        res.probe("more_than_8_ranks")
    res.states.add(("load", mode, op.get("via"), min(len(loaded_ranks), 9), uses_pool, inc,
                    min(len({n for rf in rfs.values() for n in rf.step_names()}), 3)))
    shift = None
    for rank in loaded_ranks:
        e = exp[rank]
        rows = obs["ranks"][str(rank)]
        seen: Set[int] = set()
        # C02 speaks about every *loaded* event: links are judged among the rows that are really
        # present (which rows should be present is C12's question)
        present_ids = {row.get("index") for row in rows if isinstance(row.get("index"), int)
                       and row.get("index") in rfs[rank].rows}
        links_present = refmodel.ref_links(rfs[rank].rows, present_ids)
        for row in rows:
            eid = row.get("index")
            if not isinstance(eid, int) or eid in seen:
                res.violate("C01", f"row-identity/{ref_mode}", {"rank": rank, "row": _short(row)}, si, r["i"])
                continue
            seen.add(eid)
            rf_row = rfs[rank].rows.get(eid)
            res.oracle_evals += 1
            if rf_row is None:
                res.violate("C01", f"spurious-row/{ref_mode}", {"rank": rank, "row": _short(row)}, si, r["i"])
                continue
            if full and row.get("_idx") != eid:
                res.violate("C01", f"frame-index/{ref_mode}", {"rank": rank, "row": _short(row)}, si, r["i"])
            # --- C01: field fidelity
            for key in ("name", "cat", "pid", "tid", "stream", "correlation"):
                if row.get(key) != rf_row[key]:
                    res.violate("C01", f"field-{key}/{ref_mode}",
                                {"rank": rank, "id": eid, "got": row.get(key), "want": rf_row[key]}, si, r["i"])
                    if key in ("name", "cat"):
                        how = "pool" if uses_pool and len(loaded_ranks) > 1 and mode != "single" else (
                            "single" if mode == "single" else "sequential")
                        res.violate("C11", f"decode-{key}/{how}",
                                    {"rank": rank, "id": eid, "got": row.get(key), "want": rf_row[key]}, si, r["i"])
            if not refmodel.num_eq(row.get("dur"), rf_row["dur"]):
                res.violate("C01", f"field-dur/{ref_mode}",
                            {"rank": rank, "id": eid, "got": row.get("dur"), "want": str(rf_row["dur"])}, si, r["i"])
            want_ts = rf_row["ts"] - e["shift"]
            if not refmodel.num_eq(row.get("ts"), want_ts):
                res.violate("C01", f"ts/{ref_mode}" + ("/frac" if rfs[rank].frac else ""),
                            {"rank": rank, "id": eid, "got": row.get("ts"), "want": str(want_ts),
                             "shift": str(e["shift"])}, si, r["i"])
            if row.get("end") is None or row.get("ts") is None or row.get("dur") is None or \
                    Fraction(row["end"]) != Fraction(row["ts"]) + Fraction(row["dur"]):
                res.violate("C01", f"end-ne-ts-plus-dur/{ref_mode}",
                            {"rank": rank, "id": eid, "ts": row.get("ts"), "dur": row.get("dur"),
                             "end": row.get("end")}, si, r["i"])
            # rounded inward: never beyond the original span
            if rfs[rank].frac and row.get("ts") is not None and row.get("end") is not None:
                o_ts = rf_row["orig_ts"] - e["shift"]
                o_end = rf_row["orig_end"] - e["shift"]
                if Fraction(row["ts"]) < o_ts or (Fraction(row["ts"]) + Fraction(row["dur"] or 0)) > o_end:
                    res.violate("C01", f"rounded-outward/{ref_mode}", {"rank": rank, "id": eid}, si, r["i"])
            # --- C02: links
            if True:
                want_link = links_present.get(eid)
                if want_link is not None:
                    got = row.get("index_correlation")
                    if got != want_link:
                        kind = "sentinel" if want_link <= 0 else "partner"
                        res.violate("C02", f"link-{kind}/{ref_mode}",
                                    {"rank": rank, "id": eid, "got": got, "want": want_link,
                                     "correlation": rf_row["correlation"], "device": rf_row["device"]}, si, r["i"])
                    if want_link > 0:
                        res.probe("linked_rows")
                    elif want_link == 0:
                        res.probe("link_partner_absent")
            if e["present"] is not None and eid in e["rows"]:
                # --- C12: iteration values
                want_it = e["rows"][eid]["iteration"]
                if want_it is not None and row.get("iteration") != want_it:
                    res.violate("C12", f"iteration-{'device' if rf_row['stream'] > 0 else 'host'}/{ref_mode}",
                                {"rank": rank, "id": eid, "got": row.get("iteration"), "want": want_it}, si, r["i"])
        # --- membership
        if e.get("trim_unjudged"):
            res.probe("trim_unjudged_repeated_step_rows")
        elif e["present"] is not None:
            missing = sorted(set(e["present"]) - seen)
            extra = sorted(seen - set(e["present"]))
            if not full:
                if missing:
                    res.violate("C01", f"missing-rows/{ref_mode}", {"rank": rank, "ids": missing[:10]}, si, r["i"])
            else:
                if missing or extra:
                    n_steps = len({n for rf in rfs.values() for n in rf.step_names()})
                    cls = "lt2steps" if n_steps < 2 else ("incl-last" if inc else "excl-last")
                    res.violate("C12", f"trim-membership/{cls}/{'extra' if extra else 'missing'}",
                                {"rank": rank, "missing": missing[:10], "extra": extra[:10],
                                 "n_missing": len(missing), "n_extra": len(extra)}, si, r["i"])
                else:
                    if len(e["present"]) < len(rfs[rank].rows):
                        res.probe("trim_removed_rows")
        # iterations getter agrees with the column
        col = sorted({row.get("iteration") for row in rows if isinstance(row.get("iteration"), int)
                      and row.get("iteration") >= 0})
        if obs["iterations"].get(str(rank)) != col:
            res.violate("C12", "get_iterations-vs-column", {"rank": rank, "got": obs["iterations"].get(str(rank)),
                                                            "column": col}, si, r["i"])
    if full:
        shift = exp[loaded_ranks[0]]["shift"] if loaded_ranks else Fraction(0)
        if not refmodel.num_eq(obs.get("min_ts"), shift):
            res.violate("C01", "min_ts", {"got": obs.get("min_ts"), "want": str(shift)}, si, r["i"])
        # (get_profiler_steps is derived from the step annotation rows of all ranks, not from the
        #  iteration column of one rank; the property does not relate the two, so it is not compared)
    if not obs.get("sym_index_ok", True):
        res.violate("C11", "symbol-table-not-bijective/after-load", {}, si, r["i"])


def _short(row: Dict[str, Any]) -> Dict[str, Any]:
    return {k: row.get(k) for k in ("_idx", "index", "ts", "dur", "end", "name", "cat", "stream", "correlation")}


def collect_probes(res: Result, execution: Dict[str, Any]) -> None:
    for s in execution["sessions"]:
        for ev in s["events"]:
            k = ev.get("ev")
            if k == "probe":
                res.probe(ev["name"])
            elif k == "fault_fired":
                res.probe("fault:" + ev["kind"])
            elif k == "pool_create":
                res.probe("pool_created")
                if ev.get("n") == 1:
                    res.probe("pool_of_size_1")
            elif k == "schedule":
                res.probe("pool_calls")
                if not ev.get("in_order"):
                    res.probe("completion_out_of_order")
                if ev.get("interleaved"):
                    res.probe("proxy_calls_interleaved")
            elif k == "escape":
                res.harness.append("unsimulated concurrency: " + str(ev.get("what")))
            elif k == "harness_error":
                res.harness.append(f"harness_error {ev.get('where')}: {ev.get('exc')} {ev.get('msg')}")
        if s["status"] in ("timeout", "died"):
            res.harness.append(f"session {s['status']}")


def check(plan: Dict[str, Any], execution: Dict[str, Any], props: Optional[Set[str]] = None) -> Result:
    res = Result()
    props = props or set(PROPERTIES)
    ws = Workspace(plan["world"])
    collect_probes(res, execution)
    for si, (sess, sx) in enumerate(zip(plan["sessions"], execution["sessions"])):
        ws.apply_pre(sess.get("pre", []), sx["events"])
        faults_active = bool(sess.get("pre")) or bool(sess.get("env", {}).get("faults"))
        env = sess.get("env", {})
        low_memory = int(0.8 * env.get("mem_available", 1 << 40) / max(env.get("tracemalloc_peak", 1), 1)) < 1
        results = driver.op_results(sx)
        for r in results:
            op = sess["ops"][r["i"]]
            if op["op"] == "load" and r["ok"] is not None:
                check_load(res, props, si, op, r, ws, faults_active, low_memory)
            elif op["op"] in ("write_trace", "update_rank") and r["ok"]:
                for name, info in (r["obs"] or {}).get("files", {}).items():
                    ws.files[name] = {"doc": info.get("doc"), "torn": not info.get("valid"),
                                      "format": "gz" if name.endswith(".gz") else "json", "tool_written": True}
                res.probe("tool_rewritten_file")
        if len(plan["sessions"]) > 1 and si > 0:
            res.probe("restart_sessions")
    return res
