"""Critical-path operations (C09, C19, overlay part of C20)."""
from __future__ import annotations

import copy
import dataclasses
import os
from typing import Any, Dict, List

from . import simenv
from .canon import canon_value
from .ops_analysis import canon_result
from .ops_files import read_any
from .session import State, _abs, _rel, op


def observe_graph(cp: Any, with_nodes: bool = True) -> Dict[str, Any]:
    edges = []
    for u, v in cp.edges:
        d = cp.edges[u, v]
        e = d.get("object")
        edges.append([int(u), int(v), canon_value(d.get("weight")),
                      None if e is None else [int(e.begin), int(e.end), canon_value(e.weight), str(e.type.value)]])
    edges.sort(key=lambda x: (x[0], x[1]))
    obs: Dict[str, Any] = {
        "n_nodes": cp.number_of_nodes(),
        "nodes_set": sorted(int(n) for n in cp.nodes),
        "edges": edges,
        "critical_path_nodes": [int(n) for n in getattr(cp, "critical_path_nodes", [])],
        "critical_path_events_set": sorted(int(x) for x in getattr(cp, "critical_path_events_set", set())),
        "critical_path_edges_set": sorted([int(e.begin), int(e.end), canon_value(e.weight), str(e.type.value)]
                                          for e in getattr(cp, "critical_path_edges_set", set())),
        "edge_to_event_map": sorted([int(k[0]), int(k[1]), int(v)] for k, v in getattr(cp, "edge_to_event_map", {}).items()),
        "event_to_start_node_map": sorted([int(k), int(v)] for k, v in getattr(cp, "event_to_start_node_map", {}).items()),
        "event_to_end_node_map": sorted([int(k), int(v)] for k, v in getattr(cp, "event_to_end_node_map", {}).items()),
    }
    # the edge set must behave as a set of its elements: an equal, freshly built edge is found in it
    es = getattr(cp, "critical_path_edges_set", set())
    lost = 0
    for e in list(es):
        try:
            twin = dataclasses.replace(e)
        except Exception:  # noqa: BLE001
            continue
        if twin != e or hash(twin) != hash(e) or twin not in es:
            lost += 1
    obs["edges_set_lookup_failures"] = lost
    if with_nodes:
        obs["node_list"] = [[int(n.idx), int(n.ev_idx), canon_value(n.ts), bool(n.is_start), bool(n.is_blocking)]
                            for n in getattr(cp, "node_list", [])]
    return obs


def _instance(v: Any) -> Any:
    if isinstance(v, list):
        return (int(v[0]), int(v[1]))
    return v


@op("cp_analyze")
def op_cp_analyze(state: State, a: Dict[str, Any], env: simenv.SimEnv) -> Any:
    try:
        res = state.ta.critical_path_analysis(rank=int(a["rank"]), annotation=a.get("annotation", "ProfilerStep"),
                                              instance_id=_instance(a.get("instance", 0)))
    except Exception:
        state.graphs.append(None)  # keep graph numbering stable for the rest of the history
        raise
    if res is None:
        state.graphs.append(None)
        return {"none": True}
    cp, ok = res
    state.graphs.append(cp)
    obs = observe_graph(cp)
    obs["success"] = bool(ok)
    obs["graph"] = len(state.graphs) - 1
    return obs


@op("cp_recompute")
def op_cp_recompute(state: State, a: Dict[str, Any], env: simenv.SimEnv) -> Any:
    cp = state.graphs[int(a["graph"])]
    if cp is None:
        return {"skipped": True}
    ok = cp.critical_path()
    obs = observe_graph(cp, with_nodes=False)
    obs["success"] = bool(ok)
    return obs


@op("cp_reweight")
def op_cp_reweight(state: State, a: Dict[str, Any], env: simenv.SimEnv) -> Any:
    """The documented what-if workflow: edit edge weights of the networkx graph."""
    cp = state.graphs[int(a["graph"])]
    if cp is None:
        return {"skipped": True, "changed": []}
    order = sorted((int(u), int(v)) for u, v in cp.edges)
    changed = []
    for ed in a["edits"]:
        if not order:
            break
        if "swap_on_off" in ed:
            # exchange the weight of an edge on the current critical path with that of an edge off it
            path = [int(n) for n in getattr(cp, "critical_path_nodes", [])]
            on = sorted(set(zip(path, path[1:])) & set(order))
            off = [e for e in order if e not in set(on)]
            if not on or not off:
                continue
            (u, v), (x, y) = on[int(ed["swap_on_off"][0]) % len(on)], off[int(ed["swap_on_off"][1]) % len(off)]
            wa, wb = cp.edges[u, v]["weight"], cp.edges[x, y]["weight"]
            cp.edges[u, v]["weight"], cp.edges[x, y]["weight"] = wb, wa
            changed.append([u, v, canon_value(wa), canon_value(wb)])
            changed.append([x, y, canon_value(wb), canon_value(wa)])
            continue
        if "swap" in ed or "move" in ed:
            # weight-conserving what-if edits: exchange two weights / move part of one weight to another edge
            pa, pb = ed.get("swap") or ed.get("move")
            (u, v), (x, y) = order[int(pa) % len(order)], order[int(pb) % len(order)]
            if (u, v) == (x, y):
                continue
            wa, wb = cp.edges[u, v]["weight"], cp.edges[x, y]["weight"]
            if "swap" in ed:
                na, nb = wb, wa
            else:
                k = int(wa) // 2
                na, nb = wa - k, wb + k
            cp.edges[u, v]["weight"], cp.edges[x, y]["weight"] = na, nb
            changed.append([u, v, canon_value(wa), canon_value(na)])
            changed.append([x, y, canon_value(wb), canon_value(nb)])
            continue
        if "pick_heavy" in ed:
            # among the edges that were heaviest when the graph was built (the frozen edge objects carry that
            # weight, so the same pick names the same edge in every session and on every restored copy)
            def built(e):
                ob = cp.edges[e].get("object")
                return -int(getattr(ob, "weight", 0) or 0)
            heavy = sorted(order, key=lambda e: (built(e), e))[:8]
            u, v = heavy[int(ed["pick_heavy"]) % len(heavy)]
        else:
            u, v = order[int(ed["pick"]) % len(order)]
        old = cp.edges[u, v]["weight"]
        if "set" in ed:
            new = int(ed["set"])
        elif "mul" in ed:
            new = float(old) * float(ed["mul"])  # multipliers are exact in binary (0.5, 0.25, 1.5 ...)
        else:
            new = int(int(old) * ed["num"] // ed["den"])
        cp.edges[u, v]["weight"] = new
        changed.append([u, v, canon_value(old), canon_value(new)])
    return {"changed": changed}


@op("cp_deepcopy")
def op_cp_deepcopy(state: State, a: Dict[str, Any], env: simenv.SimEnv) -> Any:
    cp = state.graphs[int(a["graph"])]
    try:
        state.graphs.append(copy.deepcopy(cp))
    except Exception:
        state.graphs.append(None)
        raise
    return {"graph": len(state.graphs) - 1}


@op("cp_breakdown")
def op_cp_breakdown(state: State, a: Dict[str, Any], env: simenv.SimEnv) -> Any:
    cp = state.graphs[int(a["graph"])]
    if cp is None:
        return {"skipped": True}
    sym = list(state.trace.symbol_table.get_sym_table())
    bd = cp.get_critical_path_breakdown()
    out: Dict[str, Any] = {"breakdown": None, "summary": None}
    if bd is not None:
        keep = [c for c in ("event_idx", "duration", "type", "s_name", "cat", "pid", "tid", "stream", "bound_by")
                if c in bd.columns]
        out["breakdown"] = canon_result(bd[keep].reset_index(drop=True), sym)
        out["n_rows"] = int(len(bd))
        if a.get("summary", True):
            out["summary"] = canon_result(cp.summary(), sym)
    return out


@op("cp_save")
def op_cp_save(state: State, a: Dict[str, Any], env: simenv.SimEnv) -> Any:
    cp = state.graphs[int(a["graph"])]
    if cp is None:
        return {"skipped": True}
    out_dir = a["out_dir"]
    if a.get("abs", True):
        out_dir = _abs(state, out_dir)
    # what is being saved, observed just before the call (a failed recomputation may have left the
    # object in a state the driver's model does not know about)
    graph_obs = observe_graph(cp)
    z = cp.save(out_dir)
    return {"zip": _rel(state, os.path.abspath(z)), "returned": _rel(state, z) if os.path.isabs(z) else z,
            "graph_obs": graph_obs}


@op("cp_restore")
def op_cp_restore(state: State, a: Dict[str, Any], env: simenv.SimEnv) -> Any:
    from hta.analyzers.critical_path_analysis import restore_cpgraph
    z = a["zip"]
    if a.get("abs", True):
        z = _abs(state, z)
    try:
        cp = restore_cpgraph(z, state.trace, int(a["rank"]))
    except BaseException:
        state.graphs.append(None)
        raise
    state.graphs.append(cp)
    obs = observe_graph(cp)
    obs["graph"] = len(state.graphs) - 1
    return obs


@op("cp_overlay")
def op_cp_overlay(state: State, a: Dict[str, Any], env: simenv.SimEnv) -> Any:
    cp = state.graphs[int(a["graph"])]
    if cp is None:
        return {"skipped": True}
    out_dir = _abs(state, a.get("out_dir", "overlay"))
    path = state.ta.overlay_critical_path_analysis(
        int(a["rank"]), cp, out_dir, only_show_critical_events=bool(a.get("only_critical", True)),
        show_all_edges=bool(a.get("all_edges", False)))
    out: Dict[str, Any] = {"path": _rel(state, path) if path else path}
    if path:
        out["file"] = read_any(env, path)
        out["graph_obs"] = {"critical_path_events_set": sorted(int(x) for x in cp.critical_path_events_set),
                            "node_list": [[int(n.idx), int(n.ev_idx), bool(n.is_start)] for n in cp.node_list]}
    return out
