"""Zygote: an interpreter started with a fixed PYTHONHASHSEED that imports the working-tree
``hta`` (and pandas, networkx ...) once and then only forks: one child per session request
arriving on its unix socket (DESIGN.md 4.1).  The zygote itself never executes HTA code, so
every session forked from it starts from the identical image.

usage: PYTHONHASHSEED=<h> python -m sim.zygote <socket path> <repo path>
"""
from __future__ import annotations

import json
import os
import select
import signal
import socket
import struct
import sys


def _recv_exact(conn: socket.socket, n: int) -> bytes:
    buf = b""
    while len(buf) < n:
        b = conn.recv(n - len(buf))
        if not b:
            raise EOFError
        buf += b
    return buf


def serve(sock_path: str, repo: str) -> None:
    sys.path.insert(0, repo)
    import logging
    logging.disable(logging.WARNING)
    # the seams go in before the system under test (and the libraries it uses) are imported, dormant: names bound at
    # import time (`from concurrent.futures import as_completed`, `from os import listdir`, `from time import time`)
    # are then the simulated ones as well; each session child configures and activates this one environment
    from . import simenv, simpool  # noqa: F401
    env0 = simenv.SimEnv({}, "/nonexistent-hta-sim-world", lambda ev: None)
    env0.active = False
    env0.install()
    # import everything a session may need, once
    import numpy  # noqa: F401
    import pandas  # noqa: F401
    import networkx  # noqa: F401
    import hta  # noqa: F401
    import hta.trace_analysis  # noqa: F401
    import hta.trace_diff  # noqa: F401
    import hta.common.trace_call_graph  # noqa: F401
    from . import session, simenv, simpool, canon  # noqa: F401
    from . import ops_analysis, ops_cp, ops_files, ops_symtab  # noqa: F401
    logging.disable(logging.NOTSET)
    hta_file = os.path.realpath(hta.__file__)
    if not hta_file.startswith(os.path.realpath(repo) + os.sep):
        print(f"FATAL hta imported from {hta_file}, not from {repo}", flush=True)
        sys.exit(4)

    srv = socket.socket(socket.AF_UNIX, socket.SOCK_STREAM)
    if os.path.exists(sock_path):
        os.unlink(sock_path)
    srv.bind(sock_path)
    srv.listen(256)
    signal.signal(signal.SIGCHLD, signal.SIG_IGN)  # auto-reap session children
    print("READY", flush=True)
    while True:
        r, _w, _x = select.select([srv, sys.stdin], [], [])
        if sys.stdin in r:
            if not sys.stdin.buffer.read1(1):
                break  # driver went away
        if srv not in r:
            continue
        conn, _ = srv.accept()
        pid = os.fork()
        if pid != 0:
            conn.close()
            continue
        # ---- session child -----------------------------------------------------------------
        code = 3
        try:
            srv.close()
            signal.signal(signal.SIGCHLD, signal.SIG_DFL)
            os.setsid()
            (n,) = struct.unpack("<Q", _recv_exact(conn, 8))
            req = json.loads(_recv_exact(conn, n).decode())
            debug = bool(req.get("debug"))
            devnull = os.open(os.devnull, os.O_RDWR)
            os.dup2(devnull, 0)
            os.dup2(devnull, 1)
            if not debug:
                os.dup2(devnull, 2)
            out = conn.makefile("wb")
            nonce = req.get("nonce", "")
            base = req.get("base", "")

            def emit(ev: dict) -> None:
                line = json.dumps(ev, sort_keys=True, default=str)
                if base:
                    line = line.replace(base, "{B}")
                    # (archive member names are the same path without the leading slash)
                    line = line.replace(base.lstrip("/"), "{B}")
                if nonce:
                    line = line.replace(nonce, "{N}")
                out.write(line.encode() + b"\n")
                out.flush()

            out.write(json.dumps({"ev": "hello", "pid": os.getpid(),
                                  "hashseed": os.environ.get("PYTHONHASHSEED")}).encode() + b"\n")
            out.flush()
            code = session.run_session(req["session"], req["world_dir"], emit)
            out.flush()
        except BaseException as exc:  # noqa: BLE001
            try:
                import traceback
                out.write(json.dumps({"ev": "harness_error", "where": "zygote-child",
                                      "exc": type(exc).__name__, "msg": str(exc)[:300],
                                      "tb": traceback.format_exc()[-1500:]}).encode() + b"\n")
                out.flush()
            except Exception:  # noqa: BLE001
                pass
            code = 3
        finally:
            try:
                conn.close()
            except Exception:  # noqa: BLE001
                pass
            os._exit(code)


if __name__ == "__main__":
    serve(sys.argv[1], sys.argv[2])
