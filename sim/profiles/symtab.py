"""C11: symbol ids are a stable bijection; results ignore numbering, parse order, pool use.

Three plan kinds (DESIGN.md 6 C11):
  history - seeded histories of symbol-table operations against a list+dict model;
            add_symbols_mp runs on a SimPool whose tape interleaves the individual queue
            puts of the workers;
  decode  - multi-rank loads (pool schedules, sequential, parse_single_rank permutations):
            every row must decode to the string in its rank's file (loader oracle);
  env     - the same world loaded and analysed in 3-4 sessions that differ only in hash
            seed, pool on/off, pool size and tape; canonical results must be equal.
"""
from __future__ import annotations

import json
from typing import Any, Dict, List, Optional, Set

from .. import driver, worldgen
from ..canon import approx_equal, digest
from ..prng import Rng
from ..simenv import short
from . import Result, loader

NAME = "symtab"
PROPERTIES = ["C11"]

SYMS = ["aten::add", "aten::mul", "cudaLaunchKernel", "kernel", "cpu_op", "ProfilerStep#1", "ProfilerStep#2",
        "void f<int>(a, b)", "nccl:all_reduce", "Memcpy HtoD (Pageable -> Device)", "", " ", "a", "b", "ab",
        "Undefined-3", "été", "x" * 200, "Context Sync", "user_annotation", "0", "1", "-1", "None",
        "nan", "aten::add ", "ATEN::ADD", "sym\twith\ttabs", "sym,with,commas", "sym\"quoted\"",
        "line\nbreak", "gpu_memcpy", "cuda_runtime", "aten::to", "aten::copy_", "triton__0d1d2d3de"]


def gen_history_plan(rng: Rng, tier: str) -> Dict[str, Any]:
    pool = rng.sample(SYMS, rng.randint(4, len(SYMS)))
    steps: List[Dict[str, Any]] = [{"t": "new", "dst": "A"}]
    names = ["A"]
    n_steps = rng.randint(2, 10)
    for _ in range(n_steps):
        kind = rng.weighted([("add", 5), ("add_mp", 5), ("clone", 1), ("combine", 1), ("from_map", 1), ("series", 3)])
        tbl = rng.choice(names)
        if kind == "add":
            steps.append({"t": "add", "table": tbl, "symbols": [rng.choice(pool) for _ in range(rng.randint(0, 8))],
                          "read_series": rng.chance(0.4)})
        elif kind == "add_mp":
            n_lists = rng.weighted([(1, 2), (2, 4), (3, 3), (4, 2), (6, 2), (9, 1)])
            lists = [[rng.choice(pool) for _ in range(rng.randint(0, 6))] for _ in range(n_lists)]
            steps.append({"t": "add_mp", "table": tbl, "lists": lists, "read_series": rng.chance(0.4)})
        elif kind == "clone":
            dst = f"T{len(names)}"
            steps.append({"t": "clone", "src": tbl, "dst": dst, "read_series": rng.chance(0.5)})
            names.append(dst)
        elif kind == "combine":
            dst = f"T{len(names)}"
            srcs = [rng.choice(names) for _ in range(rng.randint(1, 3))]
            steps.append({"t": "combine", "srcs": srcs, "dst": dst, "read_series": rng.chance(0.5)})
            names.append(dst)
        elif kind == "from_map":
            dst = f"T{len(names)}"
            k = rng.randint(1, 6)
            syms = [s for s in rng.sample(pool, min(k, len(pool))) if not s.startswith("Undefined-")]
            if not syms:
                syms = ["zz"]
            ids = rng.sample(range(0, 2 * len(syms) + 1), len(syms))
            steps.append({"t": "from_map", "dst": dst, "map": dict(zip(syms, ids)), "read_series": rng.chance(0.5)})
            names.append(dst)
        else:
            steps.append({"t": "series", "table": tbl})
    env = {"cpu_count": rng.weighted([(1, 2), (2, 3), (3, 2), (4, 3), (8, 1)]),
           "tapes": [[rng.below(64) for _ in range(80)] for _ in range(n_steps + 1)],
           "random_seed": rng.below(1 << 30)}
    world = {"knobs": {"profile": "none"}, "files": []}
    return {"format": 1, "profile": NAME, "kind": "history", "world": world,
            "sessions": [{"zygote": rng.below(len(driver.HASH_SEEDS)), "env": env, "pre": [],
                          "ops": [{"op": "symtab_history", "steps": steps}]}]}


BATTERY = [
    {"g": "temporal_breakdown"}, {"g": "gpu_kernel_breakdown"}, {"g": "idle_time_breakdown"},
    {"g": "comm_comp_overlap"}, {"g": "launch_stats"}, {"g": "queue_length_series"},
    {"g": "queue_length_summary"}, {"g": "blocked_on_full_queue"}, {"g": "memory_bw_series"},
    {"g": "memory_bw_summary"}, {"g": "stragglers"}, {"g": "profiler_steps"},
    {"g": "kernels_with_annotations"}, {"g": "user_annotation_breakdown"}, {"g": "call_graph"},
    {"g": "trace_diff"}, {"g": "frequent_sequences"}, {"g": "critical_path"},
]


def gen_env_plan(rng: Rng, tier: str) -> Dict[str, Any]:
    world = worldgen.gen_world(rng.fork("world"), "env")
    ranks = [f["rank"] for f in world["files"]]
    getters = []
    for g in BATTERY:
        if not rng.chance(0.75):
            continue
        g = dict(g)
        name = g["g"]
        if name == "gpu_kernel_breakdown":
            g["num_kernels"] = rng.choice([1, 2, 3, 10])
            g["duration_ratio"] = rng.choice([0.3, 0.8, 1.0])
            g["include_memory_kernels"] = rng.chance(0.7)
        elif name in ("idle_time_breakdown", "launch_stats", "queue_length_series", "queue_length_summary",
                      "memory_bw_series", "memory_bw_summary", "blocked_on_full_queue", "call_graph"):
            g["ranks"] = sorted(rng.sample(ranks, rng.randint(1, len(ranks))))
            if name == "idle_time_breakdown":
                g["delay"] = rng.choice([0, 5, 30, 1000])
            if name == "launch_stats":
                g["mem"] = rng.chance(0.5)
        elif name == "stragglers":
            g["k"] = rng.randint(1, 3)
        elif name in ("kernels_with_annotations",):
            g["ranks"] = [rng.choice(ranks)]
        elif name == "user_annotation_breakdown":
            g["gpu"] = rng.chance(0.5)
        elif name == "trace_diff":
            g["device"] = rng.choice(["cpu", "gpu", "all"])
            g["short"] = rng.chance(0.3)
        elif name == "frequent_sequences":
            ops = sorted({e.get("name") for f in world["files"][:1] for e in f["doc"]["traceEvents"]
                          if e.get("cat") == "cpu_op"})
            g["operator"] = rng.choice(ops) if ops else "aten"
            g["ranks"] = [ranks[0]]
            g["min_len"] = rng.choice([1, 2, 3])
        elif name == "critical_path":
            g["ranks"] = [rng.choice(ranks)]
            g["annotation"] = "ProfilerStep"
            g["instance"] = 0
        getters.append(g)
    rng.shuffle(getters)
    inc = rng.chance(0.3)
    sessions = []
    zyg = rng.perm(len(driver.HASH_SEEDS))
    n_sessions = rng.choice([3, 4])
    for si in range(n_sessions):
        r = rng.fork(f"s{si}")
        env = loader.gen_env(r, len(ranks), False)
        sessions.append({"zygote": zyg[si % len(zyg)], "env": env, "pre": [],
                         "ops": [{"op": "load", "mode": "full", "via": "dir", "include_last": inc,
                                  "mp": (si % 2 == 0) if si < 2 else r.chance(0.5), "memprof": r.chance(0.5)},
                                 {"op": "battery", "getters": getters}]})
    return {"format": 1, "profile": NAME, "kind": "env", "world": world, "sessions": sessions}


HUGE_VOCAB = {"ranks": 2, "name_explosion": 17000, "vocab": "disjoint", "steps": 2, "fractional": False,
              "tiny_events": False, "order": "grouped", "meta_noise": False, "flow_p": 0.0, "boundary": False,
              "base_ts": 1000, "clone_ranks": False, "no_rank_meta": False}
# four ranks whose own symbol counts are 2**15 - 1 .. 2**15 + 2 (or sit around 2**16): the widths at which a
# narrow id type wraps, per rank and - the vocabularies being disjoint - in the merged table as well
HUGE_VOCAB_EXACT = dict(HUGE_VOCAB, name_explosion=0, symbol_family="int16", symbol_target=0)


def gen_plan(rng: Rng, tier: str, kind: str, hugevocab: bool = False) -> Dict[str, Any]:
    if kind == "history":
        return gen_history_plan(rng, tier)
    if kind == "decode":
        ov = None
        if hugevocab:
            pick = rng.fork("hugevocab").weighted([("exact16", 3), ("exact-u16", 1), ("bulk", 1)]) if tier == "thorough" else "exact16"
            ov = dict(HUGE_VOCAB) if pick == "bulk" else dict(HUGE_VOCAB_EXACT, symbol_family="int16" if pick == "exact16" else "uint16")
        plan = loader.gen_plan(rng, tier, faulty=False, profile="symtab", overrides=ov)
        plan["profile"] = NAME
        plan["kind"] = "decode"
        return plan
    return gen_env_plan(rng, tier)


# -- oracles ----------------------------------------------------------------------------------
def _check_snapshot(res: Result, step_no: int, st: Dict[str, Any], snap: Dict[str, Any], model: List[str]) -> None:
    table = snap["table"]
    index = {k: v for k, v in snap["index"]}
    res.oracle_evals += 1
    if len(index) != len(table) or any(index.get(s) != i for i, s in enumerate(table)) or len(set(table)) != len(table):
        res.violate("C11", f"not-bijective/{st['t']}", {"step": step_no, "table": table[:12], "index": snap["index"][:12]})
    if table != model:
        sig = "ids-changed" if table[:min(len(table), len(model))] != model[:min(len(table), len(model))] and st["t"] in ("add", "add_mp") else "table-differs"
        res.violate("C11", f"{sig}/{st['t']}", {"step": step_no, "got": table[:16], "want": model[:16]})
    if "index_series" in snap:
        if {k: v for k, v in snap["index_series"]} != index or snap["table_series"] != table:
            res.violate("C11", f"stale-series-cache/{st['t']}", {"step": step_no, "series": snap["table_series"][:12],
                                                                 "table": table[:12]})


def check_history(plan: Dict[str, Any], execution: Dict[str, Any], res: Result) -> None:
    sess = plan["sessions"][0]
    results = driver.op_results(execution["sessions"][0])
    if not results or results[0]["ok"] is None:
        return
    r = results[0]
    if not r["ok"]:
        res.violate("C11", f"history-raised/{r.get('exc')}", {"msg": r.get("msg"), "where": r.get("where")})
        return
    steps = sess["ops"][0]["steps"]
    # split the simulator events per step
    per_step: Dict[int, List[Dict[str, Any]]] = {}
    cur = -1
    for ev in r["events"]:
        if ev.get("ev") == "symtab_step":
            cur = ev["n"]
            continue
        per_step.setdefault(cur, []).append(ev)
    models: Dict[str, List[str]] = {}
    res.nontrivial = True
    for n, (st, got) in enumerate(zip(steps, r["obs"]["steps"])):
        t = st["t"]
        if "exc" in got:
            res.violate("C11", f"step-raised/{t}/{got['exc']}", {"step": n, "msg": got.get("msg")})
            return
        if t == "new":
            models[st["dst"]] = []
            key = st["dst"]
        elif t == "add":
            m = models[st["table"]]
            for s in st["symbols"]:
                if s not in m:
                    m.append(s)
            key = st["table"]
        elif t == "add_mp":
            m = models[st["table"]]
            before = list(m)
            items = [s for lst in st["lists"] for s in lst]
            puts = [ev for ev in per_step.get(n, []) if ev.get("ev") == "proxy_call" and ev.get("m") in ("put", "put_nowait")
                    and ev.get("who") != "parent"]
            by_short = {short((s,)): s for s in items}
            snap = got["snap"]
            if len(puts) == len(items) and all(p.get("arg") in by_short for p in puts):
                res.probe("add_mp_exact_order_checked")
                arrival = [by_short[p["arg"]] for p in puts]
                for s in arrival:
                    if s not in m:
                        m.append(s)
                workers = [p["who"] for p in puts]
                if len(set(workers)) > 1:
                    res.probe("puts_from_several_workers")
                    changes = sum(1 for a, b in zip(workers, workers[1:]) if a != b)
                    if changes >= len(set(workers)):
                        res.probe("puts_interleaved")
                seen_by: Dict[str, Set[Any]] = {}
                for p, s in zip(puts, arrival):
                    seen_by.setdefault(s, set()).add(p["who"])
                if any(len(v) > 1 for v in seen_by.values()):
                    res.probe("same_symbol_from_two_workers")
            else:
                # collection did not go through a queue we can see: weaker check
                res.probe("add_mp_weak_check")
                new = [s for s in snap["table"][len(before):]]
                want_new = []
                for s in items:
                    if s not in before and s not in want_new:
                        want_new.append(s)
                if snap["table"][:len(before)] == before and sorted(new) == sorted(want_new):
                    m[:] = snap["table"]
                else:
                    for s in want_new:
                        m.append(s)
            key = st["table"]
        elif t == "clone":
            models[st["dst"]] = list(models[st["src"]])
            key = st["dst"]
        elif t == "combine":
            m = []
            for s_name in st["srcs"]:
                for s in models[s_name]:
                    if s not in m:
                        m.append(s)
            models[st["dst"]] = m
            key = st["dst"]
        elif t == "from_map":
            inv = {v: k for k, v in st["map"].items()}
            models[st["dst"]] = [inv.get(i, f"Undefined-{i}") for i in range(max(st["map"].values()) + 1)]
            key = st["dst"]
        else:
            key = st["table"]
        res.states.add(("symtab", t, min(len(models[key]), 8)))
        _check_snapshot(res, n, st, got["snap"], models[key])


def _cmp(a: Any, b: Any) -> bool:
    return approx_equal(a, b, 1e-9)


def check_env(plan: Dict[str, Any], execution: Dict[str, Any], res: Result) -> None:
    per_session = []
    for sess, sx in zip(plan["sessions"], execution["sessions"]):
        results = driver.op_results(sx)
        per_session.append(results)
    if any(len(r) < 2 or r[0]["ok"] is None for r in per_session):
        return
    base = per_session[0]
    # loads must agree: all succeed with equal canonical frames, or all raise the same class
    loads_ok = [r[0]["ok"] for r in per_session]
    if not all(loads_ok):
        if any(loads_ok) or len({r[0]["exc"] for r in per_session}) > 1:
            res.violate("C11", "env-dependence/load-outcome", {"outcomes": [(r[0]["ok"], r[0]["exc"]) for r in per_session]})
        return
    res.nontrivial = True
    tables = [r[0]["obs"]["sym"] for r in per_session]
    if any(t != tables[0] for t in tables[1:]):
        res.probe("numbering_differs")
    if sorted(tables[0]) != sorted(tables[1]):
        res.violate("C11", "env-dependence/symbol-set", {})
    d0 = base[0]["obs"]["ranks"]
    for si, r in enumerate(per_session[1:], 1):
        res.oracle_evals += 1
        if not _cmp(_sorted_frames(r[0]["obs"]["ranks"]), _sorted_frames(d0)):
            res.violate("C11", "env-dependence/loaded-frames", {"session": si}, si, 0)
        if r[0]["obs"]["min_ts"] != base[0]["obs"]["min_ts"]:
            res.violate("C11", "env-dependence/min_ts", {"session": si}, si, 0)
    if any(r[1]["ok"] is None for r in per_session):
        return
    if not all(r[1]["ok"] for r in per_session):
        if any(r[1]["ok"] for r in per_session):
            res.violate("C11", "env-dependence/battery-outcome", {"outcomes": [(r[1]["ok"], r[1]["exc"]) for r in per_session]})
        return
    b0 = base[1]["obs"]["results"]
    for key in sorted(b0):
        for si, r in enumerate(per_session[1:], 1):
            other = r[1]["obs"]["results"].get(key)
            res.oracle_evals += 1
            if not _cmp(other, b0[key]):
                res.violate("C11", f"env-dependence/{key.split(':', 1)[1]}",
                            {"getter": key, "session": si, "hashseeds": [s.get("hashseed") for s in execution["sessions"]],
                             "a": json.dumps(b0[key], default=str)[:300], "b": json.dumps(other, default=str)[:300]}, si, 1)
        name = key.split(":", 1)[1]
        if isinstance(b0[key], dict) and "__exc__" in b0[key]:
            res.probe("getter_raised:" + name)
        else:
            res.probe("getter_compared:" + name)
    res.states.add(("env", len(per_session), len(plan["world"]["files"])))


def _sorted_frames(ranks: Dict[str, Any]) -> Dict[str, Any]:
    return {k: sorted(v, key=lambda row: row.get("index") if isinstance(row.get("index"), int) else -1)
            for k, v in ranks.items()}


def check(plan: Dict[str, Any], execution: Dict[str, Any], props: Optional[Set[str]] = None) -> Result:
    kind = plan.get("kind")
    if kind == "decode":
        return loader.check(plan, execution, {"C11"})
    res = Result()
    loader.collect_probes(res, execution)
    if kind == "history":
        check_history(plan, execution, res)
    else:
        check_env(plan, execution, res)
    return res
