"""C09 (the reported critical path is a maximum-weight path, also after recomputation) and
C19 (a saved critical-path graph restores to an identical graph): histories on the
user-visible mutable CPGraph object, across interpreter restarts with other hash seeds,
with write / read faults and kills placed inside save and restore."""
from __future__ import annotations

import json
from fractions import Fraction
from typing import Any, Dict, List, Optional, Set, Tuple

from .. import driver, worldgen
from ..canon import approx_equal
from ..prng import Rng
from . import Result, loader

NAME = "cp"
PROPERTIES = ["C09", "C19"]
ENV_FLAGS = ["CRITICAL_PATH_ADD_ZERO_WEIGHT_LAUNCH_EDGE", "CRITICAL_PATH_SHOW_ZERO_WEIGHT_LAUNCH_EDGE",
             "CRITICAL_PATH_STRICT_NEGATIVE_WEIGHT_CHECKS"]


def _annotations(world: Dict[str, Any], rank_file: Dict[str, Any]) -> List[str]:
    names = sorted({e.get("name") for e in rank_file["doc"]["traceEvents"]
                    if e.get("cat") == "user_annotation" and isinstance(e.get("name"), str)})
    return names


def gen_analyze(rng: Rng, world: Dict[str, Any], inc: bool = True) -> Dict[str, Any]:
    f = rng.choice(world["files"])
    n_steps = world["knobs"]["steps"]
    if n_steps >= 2 and not inc:
        n_steps -= 1  # the trailing step is trimmed by the load
    anns = _annotations(world, f)
    choice = rng.weighted([("step", 6), ("ann", 2), ("all", 1)])
    op: Dict[str, Any] = {"op": "cp_analyze", "rank": f["rank"]}
    if choice == "step" or not anns:
        op["annotation"] = "ProfilerStep"
        hi = max(0, n_steps - 1)
        if rng.chance(0.3) and hi > 0:
            a = rng.randint(0, hi)
            b = rng.randint(a, hi)
            op["instance"] = [a, b]
        else:
            op["instance"] = rng.randint(0, hi) if rng.chance(0.8) else None
    elif choice == "ann":
        op["annotation"] = rng.choice(anns)
        op["instance"] = rng.choice([0, 0, 1, None])
    else:
        op["annotation"] = "ProfilerStep"
        op["instance"] = [0, max(0, n_steps - 1)]
    env = {}
    for fl in ENV_FLAGS[:2]:
        if rng.chance(0.3):
            env[fl] = "1"
    if env:
        op["environ"] = env
    return op


def gen_edits(rng: Rng) -> List[Dict[str, Any]]:
    edits = []
    if rng.chance(0.25):
        # a purely weight-conserving what-if: node count, edge count and total weight stay the same
        for _ in range(rng.randint(1, 3)):
            kind = rng.choice(["swap_on_off", "swap_on_off", "swap", "move"])
            edits.append({kind: [rng.below(10000), rng.below(10000)]})
        return edits
    if rng.chance(0.2):
        # "what if the longest activities were much shorter": the heaviest edges, lowered
        for _ in range(rng.randint(1, 3)):
            edits.append({"pick_heavy": rng.below(8), "mul": rng.choice([0.125, 0.25, 0.0625])})
        return edits
    for _ in range(rng.randint(1, 6)):
        kind = rng.weighted([("speedup", 4), ("slowdown", 3), ("zero", 1), ("set", 1), ("scale", 4), ("swap", 2), ("move", 2)])
        pick = rng.below(10000)
        if kind in ("swap", "move"):
            edits.append({kind: [pick, rng.below(10000)]})
            continue
        if kind == "scale":
            # "what if this were 2x faster / 1.5x slower": fractional weights, exact in binary
            edits.append({"pick": pick, "mul": rng.choice([0.5, 0.5, 0.25, 0.75, 1.5, 2.5])})
            continue
        if kind == "speedup":
            edits.append({"pick": pick, "num": rng.choice([1, 1, 3]), "den": rng.choice([2, 4, 10])})
        elif kind == "slowdown":
            edits.append({"pick": pick, "num": rng.choice([2, 3, 10]), "den": 1})
        elif kind == "zero":
            edits.append({"pick": pick, "set": 0})
        else:
            edits.append({"pick": pick, "set": rng.randint(0, 5000)})
    return edits


def reverse_edits(rng: Rng, edits: List[Dict[str, Any]]) -> List[Dict[str, Any]]:
    """Edits of the same edges in the opposite direction: part of the way back, exactly back, or beyond."""
    out: List[Dict[str, Any]] = []
    for ed in edits:
        key = "pick_heavy" if "pick_heavy" in ed else ("pick" if "pick" in ed else None)
        if key is None:
            out.append(dict(ed))   # swap / move / swap_on_off: applying them again exchanges back (or on)
            continue
        how = rng.choice(["part", "part", "back", "beyond"])
        if "mul" in ed and ed["mul"]:
            inv = 1.0 / float(ed["mul"])
            out.append({key: ed[key], "mul": inv * {"part": 0.5, "back": 1.0, "beyond": 2.0}[how]})
        elif "num" in ed and ed["num"]:
            out.append({key: ed[key], "num": ed["den"] * (2 if how == "beyond" else 1), "den": ed["num"] * (2 if how == "part" else 1)})
        else:
            out.append({key: ed[key], "set": rng.randint(0, 5000)})
    return out


def _load_op(rng: Rng, inc: bool) -> Dict[str, Any]:
    return {"op": "load", "mode": "ta", "via": "dir", "include_last": inc}


def gen_plan_c09(rng: Rng, tier: str) -> Dict[str, Any]:
    world = worldgen.gen_world(rng.fork("world"), "cp")
    inc = rng.chance(0.6)
    ops: List[Dict[str, Any]] = [_load_op(rng, inc)]
    n_graphs = 0
    for _ in range(rng.weighted([(1, 5), (2, 2)])):
        ops.append(gen_analyze(rng, world, inc))
        g = n_graphs
        n_graphs += 1
        cur = g
        last: Optional[List[Dict[str, Any]]] = None
        rank = ops[-1]["rank"]
        for _ in range(rng.randint(1, 5)):
            step = rng.weighted([("recompute", 3), ("reweight", 5), ("deepcopy", 2), ("breakdown", 1), ("reverse", 2), ("roundtrip", 2)])
            if step == "recompute":
                ops.append({"op": "cp_recompute", "graph": cur})
            elif step == "reweight":
                last = gen_edits(rng)
                ops.append({"op": "cp_reweight", "graph": cur, "edits": last})
                ops.append({"op": "cp_recompute", "graph": cur})
            elif step == "reverse":
                # the same edges again, in the opposite direction
                last = reverse_edits(rng, last) if last else gen_edits(rng)
                ops.append({"op": "cp_reweight", "graph": cur, "edits": last})
                ops.append({"op": "cp_recompute", "graph": cur})
            elif step == "roundtrip":
                # a copy by way of save / restore; continue on it, often by undoing the last what-if
                out_dir = f"cp09/g{n_graphs}"
                if rng.chance(0.6):
                    # save a simulated graph: lower some of the heaviest edges first
                    last = [{"pick_heavy": rng.below(8), "mul": rng.choice([0.125, 0.25, 0.0625])} for _ in range(rng.randint(1, 3))]
                    ops.append({"op": "cp_reweight", "graph": cur, "edits": last})
                    ops.append({"op": "cp_recompute", "graph": cur})
                ops.append({"op": "cp_save", "graph": cur, "out_dir": out_dir})
                ops.append({"op": "cp_restore", "zip": out_dir + ".zip", "rank": rank})
                new = n_graphs
                n_graphs += 1
                if rng.chance(0.8):
                    last = reverse_edits(rng, last) if (last and rng.chance(0.7)) else gen_edits(rng)
                    ops.append({"op": "cp_reweight", "graph": new, "edits": last})
                ops.append({"op": "cp_recompute", "graph": new})
                if rng.chance(0.6):
                    cur = new
            elif step == "deepcopy":
                ops.append({"op": "cp_deepcopy", "graph": cur})
                new = n_graphs
                n_graphs += 1
                if rng.chance(0.7):
                    # continue on the copy, then look at the original again
                    ops.append({"op": "cp_reweight", "graph": new, "edits": gen_edits(rng)})
                    ops.append({"op": "cp_recompute", "graph": new})
                    ops.append({"op": "cp_recompute", "graph": cur})
                    if rng.chance(0.5):
                        cur = new
            else:
                ops.append({"op": "cp_breakdown", "graph": cur})
    sess = {"zygote": rng.below(len(driver.HASH_SEEDS)), "env": loader.gen_env(rng.fork("env"), len(world["files"]), False),
            "pre": [], "ops": ops}
    return {"format": 1, "profile": NAME, "kind": "c09", "world": world, "sessions": [sess]}


def gen_plan_c19(rng: Rng, tier: str, faulty: bool) -> Dict[str, Any]:
    world = worldgen.gen_world(rng.fork("world"), "cp")
    inc = rng.chance(0.6)
    n_ranks = len(world["files"])
    analyze = gen_analyze(rng, world, inc)
    analyze.pop("environ", None) if rng.chance(0.5) else None
    rank = analyze["rank"]
    cycles = rng.weighted([(1, 5), (2, 3), (3, 1), (4, 1)])
    sessions: List[Dict[str, Any]] = []
    zyg0 = rng.below(len(driver.HASH_SEEDS))
    cur_ops: List[Dict[str, Any]] = [_load_op(rng, inc), analyze]
    bd_before = rng.chance(0.5)
    if bd_before:
        cur_ops.append({"op": "cp_breakdown", "graph": 0})
    cur_sess = {"zygote": zyg0, "env": loader.gen_env(rng.fork("e0"), n_ranks, False), "pre": [], "ops": cur_ops}
    sessions.append(cur_sess)
    graph_idx = 0
    reuse_dir = rng.chance(0.3)
    dotted = rng.chance(0.35)       # directory names like run.0 / run.1 (same stem before the last dot)
    first_zip: Optional[Tuple[str, bool]] = None
    for c in range(cycles):
        stem = "cp/run." if dotted else "cp/g"
        out_dir = stem.rstrip(".") if reuse_dir else f"{stem}{c}"
        rel_mode = rng.chance(0.25)
        if rel_mode:
            out_dir = "{N}_rel/" + stem.split("/")[1] + ("" if reuse_dir else str(c))
            if reuse_dir:
                out_dir = out_dir.rstrip(".")
        if first_zip is None:
            first_zip = (out_dir + ".zip", not rel_mode)
        last_edits = None
        if (c > 0 and rng.chance(0.5)) or (c == 0 and rng.chance(0.15)):
            # the documented what-if workflow between two saves: the archives then differ
            last_edits = gen_edits(rng)
            cur_sess["ops"].append({"op": "cp_reweight", "graph": graph_idx, "edits": last_edits})
            cur_sess["ops"].append({"op": "cp_recompute", "graph": graph_idx})
            if rng.chance(0.6):
                cur_sess["ops"].append({"op": "cp_breakdown", "graph": graph_idx})
        save = {"op": "cp_save", "graph": graph_idx, "out_dir": out_dir, "abs": not rel_mode}
        cur_sess["ops"].append(save)
        if c == 0 and not bd_before:
            cur_sess["ops"].append({"op": "cp_breakdown", "graph": graph_idx})
        where = rng.weighted([("same", 2), ("restart-same-seed", 2), ("restart-other-seed", 5)])
        if where != "same":
            z = cur_sess["zygote"] if where == "restart-same-seed" else (
                (cur_sess["zygote"] + 1 + rng.below(len(driver.HASH_SEEDS) - 1)) % len(driver.HASH_SEEDS))
            cur_sess = {"zygote": z, "env": loader.gen_env(rng.fork(f"e{c + 1}"), n_ranks, False), "pre": [],
                        "ops": [_load_op(rng, inc)]}
            if rng.chance(0.3):
                # leftovers of an unrelated, earlier extraction in the directory restore will extract into
                stale = {"trace_data.csv": "_index_,index,ts\n0,0,1\n", "cp_graph.pkl": "not a pickle",
                         "cp_data.pkl": "", "old_notes.txt": "left behind"}
                keep = {k: v for k, v in stale.items() if rng.chance(0.7)}
                cur_sess["pre"].append({"kind": "stale_dir", "files": keep,
                                        "path": ("/tmp/" + out_dir) if rel_mode else ("@tmp/" + out_dir)})
            sessions.append(cur_sess)
            graph_idx_new = 0
        else:
            graph_idx_new = graph_idx + 1
        cur_sess["ops"].append({"op": "cp_restore", "zip": out_dir + ".zip", "rank": rank, "abs": not rel_mode})
        graph_idx = graph_idx_new
        cur_sess["ops"].append({"op": "cp_breakdown", "graph": graph_idx})
        if rng.chance(0.7):
            cur_sess["ops"].append({"op": "cp_recompute", "graph": graph_idx})
        elif last_edits and rng.chance(0.7):
            # continue the what-if on the restored copy without recomputing first: same edges, other direction
            cur_sess["ops"].append({"op": "cp_reweight", "graph": graph_idx, "edits": reverse_edits(rng, last_edits)})
            cur_sess["ops"].append({"op": "cp_recompute", "graph": graph_idx})
    if cycles >= 2 and first_zip is not None and rng.chance(0.6):
        # the first archive is still there after later saves to other directories: restore it again
        cur_sess["ops"].append({"op": "cp_restore", "zip": first_zip[0], "rank": rank, "abs": first_zip[1]})
    if faulty:
        fr = rng.fork("faults")
        # one fault placed inside a save or a restore (the enumeration batch does this exhaustively)
        victim_sess = fr.choice(sessions)
        kind = fr.weighted([("write_enospc", 3), ("write_eio", 2), ("kill", 3), ("read_eio", 3), ("kill_after", 2)])
        target = fr.choice(["trace_data.csv", "cp_graph.pkl", "cp_data.pkl", ".zip"])
        if kind == "kill_after":
            saves = [o for o in victim_sess["ops"] if o["op"] == "cp_save"]
            if saves:
                fr.choice(saves)["kill_after"] = True
        else:
            victim_sess["env"].setdefault("faults", []).append(
                {"kind": kind, "path": target, "suffix": True, "call": fr.choice([0, 0, 1, 2, 3, 5, 8])})
    return {"format": 1, "profile": NAME, "kind": "c19", "world": world, "sessions": sessions}


def gen_plan_c19_enum(rng: Rng, tier: str, what: str, base: int = 0) -> Dict[str, Any]:
    """Base plan of a fault-point enumeration: the fault is placed by the runner at every write
    call of the first save (what == "save") or every read call of the first restore."""
    world = worldgen.gen_world(rng.fork("world"), "cp")
    inc = rng.chance(0.6)
    n_ranks = len(world["files"])
    analyze = gen_analyze(rng, world, inc)
    rank = analyze["rank"]
    z_a = rng.below(len(driver.HASH_SEEDS))
    z_b = (z_a + 1 + rng.below(len(driver.HASH_SEEDS) - 1)) % len(driver.HASH_SEEDS)
    out = rng.choice(["cp/g", "deep/er/dir/g"])
    load = _load_op(rng, inc)
    if what == "save":
        edit = rng.chance(0.7) or base % 2 == 1
        eds = gen_edits(rng)
        if base % 2 == 1:
            eds = [{"swap_on_off": [rng.below(10000), rng.below(10000)]}, {"swap": [rng.below(10000), rng.below(10000)]}]
        what_if = [{"op": "cp_reweight", "graph": 0, "edits": eds}, {"op": "cp_recompute", "graph": 0}] if edit else []
        a_ops = [load, analyze, {"op": "cp_breakdown", "graph": 0},
                 {"op": "cp_save", "graph": 0, "out_dir": out}]      # <- target: op 3 of session 0
        a_ops += what_if + [{"op": "cp_breakdown", "graph": 0}, {"op": "cp_save", "graph": 0, "out_dir": out},
                            {"op": "cp_restore", "zip": out + ".zip", "rank": rank},
                            {"op": "cp_breakdown", "graph": 1}, {"op": "cp_recompute", "graph": 1}]
        b_ops = [dict(load), dict(analyze)] + [dict(o) for o in what_if] + [
                 {"op": "cp_breakdown", "graph": 0},
                 {"op": "cp_save", "graph": 0, "out_dir": out},
                 {"op": "cp_restore", "zip": out + ".zip", "rank": rank},
                 {"op": "cp_breakdown", "graph": 1}, {"op": "cp_recompute", "graph": 1}]
        target = {"session": 0, "op": 3, "mode": "w"}
        if base % 2 == 1:
            # the re-save into the same directory (an archive of the same size already sits at the destination)
            target = {"session": 0, "op": 3 + len(what_if) + 2, "mode": "w"}
        kinds = ["write_enospc", "kill"]
    elif base % 2 == 1:
        # the extraction directory still holds the members of an EARLIER version of the same archive (restored
        # once in session A); the archive was then written again after a weight-conserving what-if, so old and
        # new members have the same sizes
        edits = [{"swap_on_off": [rng.below(10000), rng.below(10000)]}, {"swap": [rng.below(10000), rng.below(10000)]}]
        a_ops = [load, analyze, {"op": "cp_breakdown", "graph": 0}, {"op": "cp_save", "graph": 0, "out_dir": out},
                 {"op": "cp_restore", "zip": out + ".zip", "rank": rank},
                 {"op": "cp_reweight", "graph": 0, "edits": edits}, {"op": "cp_recompute", "graph": 0},
                 {"op": "cp_breakdown", "graph": 0}, {"op": "cp_save", "graph": 0, "out_dir": out}]
        b_ops = [dict(load),
                 {"op": "cp_restore", "zip": out + ".zip", "rank": rank},   # <- target: op 1 of session 1
                 {"op": "cp_restore", "zip": out + ".zip", "rank": rank},
                 {"op": "cp_breakdown", "graph": 1}, {"op": "cp_recompute", "graph": 1}]
        target = {"session": 1, "op": 1, "mode": "r"}
        kinds = ["read_eio"]
    else:
        a_ops = [load, analyze, {"op": "cp_breakdown", "graph": 0}, {"op": "cp_save", "graph": 0, "out_dir": out}]
        b_ops = [dict(load),
                 {"op": "cp_restore", "zip": out + ".zip", "rank": rank},   # <- target: op 1 of session 1
                 {"op": "cp_restore", "zip": out + ".zip", "rank": rank},
                 {"op": "cp_breakdown", "graph": 1}, {"op": "cp_recompute", "graph": 1}]
        target = {"session": 1, "op": 1, "mode": "r"}
        kinds = ["read_eio"]
    sessions = [{"zygote": z_a, "env": loader.gen_env(rng.fork("ea"), n_ranks, False), "pre": [], "ops": a_ops},
                {"zygote": z_b, "env": loader.gen_env(rng.fork("eb"), n_ranks, False), "pre": [], "ops": b_ops}]
    return {"format": 1, "profile": NAME, "kind": "c19", "world": world, "sessions": sessions,
            "enumerate": {"target": target, "kinds": kinds}}


def gen_plan_c19_double(rng: Rng, tier: str) -> Dict[str, Any]:
    """Two faults in one history: an acknowledged save, a what-if, a second save into the same directory that
    fails after it has rewritten some of the uncompressed members but before the archive is touched, and - in
    the next interpreter life - one flipped stored byte inside a member of the surviving (first) archive."""
    world = worldgen.gen_world(rng.fork("world"), "cp")
    inc = rng.chance(0.6)
    n_ranks = len(world["files"])
    analyze = gen_analyze(rng, world, inc)
    rank = analyze["rank"]
    out = rng.choice(["cp/g", "cp/run.0"])
    edits = [{"swap_on_off": [rng.below(10000), rng.below(10000)]}, {"swap": [rng.below(10000), rng.below(10000)]}] \
        if rng.chance(0.6) else gen_edits(rng)
    a_ops = [_load_op(rng, inc), analyze, {"op": "cp_breakdown", "graph": 0}, {"op": "cp_save", "graph": 0, "out_dir": out},
             {"op": "cp_reweight", "graph": 0, "edits": edits}, {"op": "cp_recompute", "graph": 0},
             {"op": "cp_save", "graph": 0, "out_dir": out}]    # <- op 6 fails
    where = rng.weighted([("cp_data.pkl", 3), ("cp_graph.pkl", 2), (".zip", 3)])
    if where == ".zip":
        f1 = {"kind": "open_eacces", "path": ".zip", "suffix": True, "cls": "w", "op": 6, "errno": rng.choice(["EACCES", "ENOSPC", "EMFILE"])}
    else:
        f1 = {"kind": rng.choice(["write_enospc", "write_eio"]), "path": where, "suffix": True, "op": 6, "call": 0}
    env_a = loader.gen_env(rng.fork("ea"), n_ranks, False)
    env_a["faults"] = [f1]
    z_a = rng.below(len(driver.HASH_SEEDS))
    z_b = z_a if rng.chance(0.4) else (z_a + 1 + rng.below(len(driver.HASH_SEEDS) - 1)) % len(driver.HASH_SEEDS)
    b_ops = [_load_op(rng, inc), {"op": "cp_restore", "zip": out + ".zip", "rank": rank},
             {"op": "cp_breakdown", "graph": 0}, {"op": "cp_recompute", "graph": 0}]
    pre = []
    if rng.chance(0.8):
        pre.append({"kind": "flip_zip_member", "path": out + ".zip", "member": rng.choice(["cp_graph.pkl", "cp_data.pkl", "trace_data.csv"]),
                    "frac": rng.below(1000) / 1000.0, "mask": rng.choice([0x01, 0x10, 0x80, 0xFF])})
    sessions = [{"zygote": z_a, "env": env_a, "pre": [], "ops": a_ops},
                {"zygote": z_b, "env": loader.gen_env(rng.fork("eb"), n_ranks, False), "pre": pre, "ops": b_ops}]
    return {"format": 1, "profile": NAME, "kind": "c19", "world": world, "sessions": sessions}


def gen_plan(rng: Rng, tier: str, kind: str, faulty: bool = False, enum: Optional[str] = None, base: int = 0,
             double: bool = False) -> Dict[str, Any]:
    if double:
        return gen_plan_c19_double(rng, tier)
    if kind == "c09":
        return gen_plan_c09(rng, tier)
    if enum:
        return gen_plan_c19_enum(rng, tier, enum, base)
    return gen_plan_c19(rng, tier, faulty)


# -- reference: longest path by topological DP ----------------------------------------------------
def _w(w: Any) -> Fraction:
    return Fraction(1) if w is None else Fraction(w)


def longest_path_weight(nodes: List[int], edges: List[List[Any]]) -> Optional[Fraction]:
    succ: Dict[int, List[Tuple[int, float]]] = {n: [] for n in nodes}
    indeg: Dict[int, int] = {n: 0 for n in nodes}
    for u, v, w, _o in edges:
        succ.setdefault(u, []).append((v, _w(w)))
        indeg[v] = indeg.get(v, 0) + 1
        indeg.setdefault(u, 0)
        succ.setdefault(v, [])
    order = [n for n, d in indeg.items() if d == 0]
    best: Dict[int, Fraction] = {n: Fraction(0) for n in indeg}
    seen = 0
    i = 0
    while i < len(order):
        u = order[i]
        i += 1
        seen += 1
        for v, w in succ[u]:
            if best[u] + w > best[v]:
                best[v] = best[u] + w
            indeg[v] -= 1
            if indeg[v] == 0:
                order.append(v)
    if seen != len(indeg):
        return None  # cyclic: outside C09's domain (C08)
    return max(best.values()) if best else 0


def check_path(res: Result, obs: Dict[str, Any], node_list: List[List[Any]], edited: bool, si: int, oi: int,
               what: str) -> Optional[float]:
    """C09 clauses on one computation; returns the path's total weight."""
    edges = obs["edges"]
    emap = {(u, v): (w, o) for u, v, w, o in edges}
    path = obs["critical_path_nodes"]
    res.oracle_evals += 1
    res.nontrivial = True
    if len(path) < 2:
        res.violate("C09", f"path-too-short/{what}", {"path": path}, si, oi)
        return None
    total = Fraction(0)
    for a, b in zip(path, path[1:]):
        if (a, b) not in emap:
            res.violate("C09", f"path-not-connected/{what}", {"pair": [a, b]}, si, oi)
            return None
        total += _w(emap[(a, b)][0])
    best = longest_path_weight(obs["nodes_set"], edges)
    if best is None:
        res.probe("cyclic_graph")
        return total
    if total != best:
        res.violate("C09", f"not-maximal/{what}", {"path_weight": str(total), "max_weight": str(best), "len": len(path)}, si, oi)
    want_events = sorted({node_list[n][1] for n in path}) if node_list else None
    if want_events is not None and obs["critical_path_events_set"] != want_events:
        res.violate("C09", f"events-set/{what}", {"got": obs["critical_path_events_set"][:20], "want": want_events[:20]}, si, oi)
    want_edges = sorted(emap[(a, b)][1] for a, b in zip(path, path[1:]))
    if obs["critical_path_edges_set"] != want_edges:
        res.violate("C09", f"edges-set/{what}", {"got_n": len(obs["critical_path_edges_set"]), "want_n": len(want_edges),
                                                "extra": [e for e in obs["critical_path_edges_set"] if e not in want_edges][:5],
                                                "missing": [e for e in want_edges if e not in obs["critical_path_edges_set"]][:5]}, si, oi)
    if not edited and node_list:
        ts = [n[2] for n in node_list]
        makespan = max(ts) - min(ts)
        if total > makespan:
            res.violate("C09", f"exceeds-makespan/{what}", {"total": str(total), "makespan": makespan}, si, oi)
    return total


GRAPH_KEYS = ["nodes_set", "edges", "node_list", "critical_path_nodes", "critical_path_events_set",
              "critical_path_edges_set", "edge_to_event_map", "event_to_start_node_map", "event_to_end_node_map"]


def check(plan: Dict[str, Any], execution: Dict[str, Any], props: Optional[Set[str]] = None) -> Result:
    res = Result()
    loader.collect_probes(res, execution)
    # the archive model: zip path -> observation of the graph that was saved (None = unacknowledged / torn)
    archives: Dict[str, Optional[Dict[str, Any]]] = {}
    original_bd: Optional[Dict[str, Any]] = None
    saved_total: Dict[str, Optional[float]] = {}
    bd_of_saved: Dict[str, Optional[Dict[str, Any]]] = {}
    hashseed_of_save: Dict[str, Any] = {}
    archive_edited: Dict[str, bool] = {}
    archive_fresh: Dict[str, bool] = {}   # the saved graph's path had been computed after its last edit
    flipped_members: Dict[str, str] = {}   # archive -> member with one flipped data byte (its CRC cannot match any more)
    for si, (sess, sx) in enumerate(zip(plan["sessions"], execution["sessions"])):
        results = driver.op_results(sx)
        for ev in sx["events"]:
            if ev.get("ev") == "fault_fired" and ev.get("kind") == "flip_zip_member":
                flipped_members[ev["path"]] = ev.get("member")
        graphs: List[Optional[Dict[str, Any]]] = []   # per graph index: {"node_list", "edited", "obs", "origin", "bd"}
        faults_here = bool(sess.get("env", {}).get("faults"))
        for r in results:
            if r.get("skipped"):
                continue
            o = sess["ops"][r["i"]]
            kind = o["op"]
            fired = [e for e in r["events"] if e.get("ev") == "fault_fired"]
            if kind == "cp_analyze":
                if not r["ok"]:
                    graphs.append(None)
                    res.probe("analysis_raised")
                    res.notes.append(f"analysis raised {r.get('exc')} at {r.get('where')}")
                    continue
                obs = r["obs"]
                if obs.get("none"):
                    graphs.append(None)
                    res.probe("analysis_returned_none")
                    continue
                g = {"node_list": obs["node_list"], "edited": False, "obs": obs, "bd": None, "total": None}
                graphs.append(g)
                if not obs.get("success"):
                    res.probe("analysis_unsuccessful")
                    continue
                res.probe("analysis_succeeded")
                g["total"] = check_path(res, obs, g["node_list"], False, si, r["i"], "analysis")
                g["path_fresh"] = True
                if any(e[3] and e[3][3] == "critical_path_sync_dependency" and [e[0], e[1]] in
                       [[a, b] for a, b in zip(obs["critical_path_nodes"], obs["critical_path_nodes"][1:])] for e in obs["edges"]):
                    res.probe("path_through_sync_edge")
                if any(e[3] and e[3][3] == "critical_path_kernel_launch_delay" and e[3][2] == 0 for e in obs["edges"]):
                    res.probe("zero_weight_launch_edges_present")
                res.states.add(("analyze", min(len(obs["edges"]) // 50, 6), bool(o.get("environ"))))
            elif kind in ("cp_recompute", "cp_reweight", "cp_deepcopy", "cp_breakdown", "cp_save"):
                gi = o["graph"]
                g = graphs[gi] if gi < len(graphs) else None
                if g is None:
                    continue
                if not r["ok"]:
                    if fired or r.get("killed"):
                        res.probe("op_failed_under_fault")
                        if kind == "cp_save":
                            z = o["out_dir"] + ".zip"
                            touched = any(e.get("ev") in ("file_open", "fault_fired") and str(e.get("path", "")).endswith(".zip")
                                          and (e.get("mode") == "w" or e.get("ev") == "fault_fired" and e.get("at") != "open")
                                          for e in r["events"])
                            if touched or archives.get(z) is None:
                                archives[z] = None
                            else:
                                # the attempt died before the archive was opened for writing: the bytes of the
                                # acknowledged archive are untouched and it stays in force
                                res.probe("failed_save_left_the_acknowledged_archive")
                        continue
                    if kind == "cp_recompute" and r.get("exc") == "ValueError":
                        res.probe("recompute_rejected_graph")
                        continue
                    if kind == "cp_recompute" and g.get("obs") and longest_path_weight(g["obs"]["nodes_set"], g["obs"]["edges"]) in (Fraction(0), None):
                        # degenerate what-if graph: no path of positive weight exists
                        res.probe("degenerate_zero_weight_graph")
                        continue
                    prop = "C19" if kind == "cp_save" else "C09"
                    if kind == "cp_breakdown":
                        prop = "C19" if g.get("restored") else "C09"
                        res.probe("breakdown_raised")
                        if g.get("restored"):
                            res.violate("C19", f"breakdown-raised/{r.get('exc')}", {"msg": r.get("msg"), "where": r.get("where")}, si, r["i"])
                        continue
                    res.violate(prop, f"{kind}-raised/{r.get('exc')}", {"msg": r.get("msg"), "where": r.get("where")}, si, r["i"])
                    continue
                obs = r["obs"]
                if obs.get("skipped"):
                    continue
                if kind == "cp_recompute":
                    if not obs.get("success"):
                        res.probe("recompute_unsuccessful")
                        continue
                    what = ("restored" if g.get("restored") else "recompute") + ("-edited" if g["edited"] else "")
                    before_path = g["obs"]["critical_path_nodes"] if g.get("obs") else None
                    tot = check_path(res, obs, g["node_list"], g["edited"], si, r["i"], what)
                    if g["edited"] and before_path is not None and obs["critical_path_nodes"] != before_path:
                        res.probe("reweighting_moved_the_path")
                    if g.get("restored"):
                        res.probe("recompute_on_restored_graph")
                        if not g.get("edited_since_restore") and g.get("saved_total") is not None and tot is not None and tot != g["saved_total"]:
                            res.violate("C19", "recompute-total-differs", {"restored": str(tot), "original": str(g["saved_total"])}, si, r["i"])
                    g["obs"] = dict(g["obs"], **{k: obs[k] for k in obs if k in GRAPH_KEYS}) if g.get("obs") else obs
                    g["total"] = tot
                    g["bd"] = None
                    g["path_fresh"] = True
                    res.states.add(("recompute", g["edited"], bool(g.get("restored"))))
                elif kind == "cp_reweight":
                    if obs.get("changed"):
                        g["edited"] = True
                        g["edited_since_restore"] = True
                        g["changed_since_save"] = True
                        g["path_fresh"] = False
                        g["bd"] = None
                        if g.get("obs"):
                            newe = {(u, v): w for u, v, _old, w in obs["changed"]}
                            g["obs"] = dict(g["obs"])
                            g["obs"]["edges"] = [[u, v, newe.get((u, v), w), o_] for u, v, w, o_ in g["obs"]["edges"]]
                elif kind == "cp_deepcopy":
                    graphs.append({"node_list": g["node_list"], "edited": g["edited"], "obs": dict(g["obs"]) if g.get("obs") else None,
                                   "bd": None, "total": g.get("total"), "restored": g.get("restored"),
                                   "saved_total": g.get("saved_total")})
                    res.probe("deepcopy")
                elif kind == "cp_breakdown":
                    g["bd"] = obs
                    if g.get("restored") and g.get("expect_bd") is not None and not g.get("edited_since_restore"):
                        res.oracle_evals += 1
                        res.nontrivial = True
                        a, b = obs.get("breakdown"), g["expect_bd"].get("breakdown")
                        if not approx_equal(a, b, 1e-9):
                            cls = "other-hashseed" if g.get("seed_changed") else "same-hashseed"
                            res.violate("C19", f"breakdown-differs/{cls}",
                                        {"restored": json.dumps(a, default=str)[:300], "original": json.dumps(b, default=str)[:300]},
                                        si, r["i"])
                        elif not approx_equal(obs.get("summary"), g["expect_bd"].get("summary"), 1e-9):
                            res.violate("C19", "summary-differs", {}, si, r["i"])
                elif kind == "cp_save":
                    z = o["out_dir"] + ".zip"
                    archives[z] = obs.get("graph_obs") or (dict(g["obs"]) if g.get("obs") else None)
                    saved_total[z] = g.get("total")
                    bd_of_saved[z] = g.get("bd")
                    hashseed_of_save[z] = sx.get("hashseed")
                    archive_edited[z] = g["edited"]
                    archive_fresh[z] = bool(g.get("path_fresh"))
                    g["saved_as"] = z
                    g["changed_since_save"] = False
                    res.probe("save_acknowledged")
                if kind == "cp_breakdown" and g.get("saved_as") and bd_of_saved.get(g["saved_as"]) is None and not g.get("changed_since_save"):
                    bd_of_saved[g["saved_as"]] = obs
            elif kind == "cp_restore":
                z = o["zip"]
                if z in flipped_members:
                    res.probe("restore_of_archive_with_flipped_member")
                if not r["ok"]:
                    graphs.append(None)
                    if fired or r.get("killed") or archives.get(z) is None or z in flipped_members:
                        res.probe("restore_failed_under_fault")
                        continue
                    res.violate("C19", f"restore-raised/{r.get('exc')}", {"msg": r.get("msg"), "where": r.get("where")}, si, r["i"])
                    continue
                obs = r["obs"]
                exp = archives.get(z)
                g = {"node_list": obs.get("node_list"), "edited": bool(archive_edited.get(z)), "obs": obs, "bd": None, "restored": True,
                     "saved_total": saved_total.get(z), "expect_bd": bd_of_saved.get(z),
                     "seed_changed": hashseed_of_save.get(z) != sx.get("hashseed"), "total": None}
                graphs.append(g)
                if exp is None:
                    res.probe("restore_of_unacknowledged_archive")
                    g["expect_bd"] = None
                    g["saved_total"] = None
                    continue
                res.probe("restore_checked")
                g["path_fresh"] = archive_fresh.get(z, False)
                if archive_fresh.get(z) and obs.get("critical_path_nodes"):
                    # C09 on the copy as it comes back: the path it reports is a maximum-weight path of the graph it holds
                    check_path(res, obs, obs.get("node_list"), True, si, r["i"], "restored-as-is")
                if g["seed_changed"]:
                    res.probe("restore_under_other_hashseed")
                res.oracle_evals += 1
                res.nontrivial = True
                if obs.get("edges_set_lookup_failures"):
                    res.violate("C19", "restored-edges-set-lookup", {"edges_not_found_by_an_equal_edge": obs["edges_set_lookup_failures"],
                                                                     "other_hashseed": g["seed_changed"]}, si, r["i"])
                for key in GRAPH_KEYS:
                    if obs.get(key) != exp.get(key):
                        res.violate("C19", f"restored-{key}-differs", {"n_got": len(obs.get(key) or []), "n_want": len(exp.get(key) or [])}, si, r["i"])
                res.states.add(("restore", g["seed_changed"], si))
    return res
