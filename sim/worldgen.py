"""Trace-world generator: a small discrete-event model of a PyTorch training process that
writes Kineto-style trace documents (DESIGN.md 5.1).

Pure Python, no pandas.  Every choice is drawn from the Rng passed in.  The result is a
JSON-able ``world`` dict: {"knobs": {...}, "files": [{"name", "format", "indent", "doc"}]}
where ``doc`` is the complete trace document (metadata + traceEvents).

Well-formedness guaranteed (these are the quantifier preconditions of the properties):
  * events of one host thread are properly nested;
  * a correlation id pairs at most one host call with at most one device activity;
  * device stream ids are positive;
  * the first event of the file is a host operator (cpu_op, no correlation id);
  * kernels of one stream never overlap each other;
and for ``causal`` worlds additionally
  * a device activity starts no earlier than its launch call starts,
  * a synchronising call returns no earlier than the work it waits for.

All times are generated on an integer tick grid.  Integer worlds: 1 tick = 1 us.
Fractional worlds: 1 tick = 1/8 us, so every timestamp is a multiple of 0.125 (exactly
representable in binary floating point; the reference model can therefore round with
exact arithmetic) and non-zero durations are at least 1 us.
"""
from __future__ import annotations

from typing import Any, Dict, List, Optional, Tuple

from .prng import Rng

OP_NAMES = [
    "aten::linear", "aten::addmm", "aten::add", "aten::mul", "aten::relu", "aten::conv2d",
    "aten::matmul", "aten::mm", "aten::copy_", "aten::to", "aten::empty", "aten::zeros",
    "aten::batch_norm", "aten::layer_norm", "aten::softmax", "aten::dropout", "aten::embedding",
    "aten::cat", "aten::view", "aten::t", "aten::sum", "aten::mean", "aten::_to_copy",
    "aten::native_layer_norm", "aten::gelu", "aten::bmm", "aten::transpose", "aten::expand",
    "Optimizer.step#SGD.step", "Optimizer.zero_grad#SGD.zero_grad", "aten::index_select",
]
BWD_NAMES = [
    "AddmmBackward0", "MulBackward0", "ReluBackward0", "ConvolutionBackward0", "MmBackward0",
    "NativeLayerNormBackward0", "SoftmaxBackward0", "EmbeddingBackward0", "TBackward0",
    "torch::autograd::AccumulateGrad", "SumBackward0",
]
KERNEL_NAMES = [
    "ampere_sgemm_128x64_tn", "ampere_sgemm_128x64_nn", "ampere_sgemm_32x128_nt",
    "void at::native::vectorized_elementwise_kernel<4, at::native::CUDAFunctor_add<float>, "
    "at::detail::Array<char*, 3> >(int, at::native::CUDAFunctor_add<float>, at::detail::Array<char*, 3>)",
    "void at::native::elementwise_kernel<128, 2, at::native::gpu_kernel_impl<at::native::"
    "MulFunctor<float> >(at::TensorIteratorBase&, at::native::MulFunctor<float> const&)::"
    "{lambda(int)#1}>(int, at::native::gpu_kernel_impl<at::native::MulFunctor<float> >"
    "(at::TensorIteratorBase&, at::native::MulFunctor<float> const&)::{lambda(int)#1})",
    "void cudnn::bn_fw_tr_1C11_kernel_NCHW<float, float, int, 512, true, 1, true>(cudnnTensorStruct)",
    "void at::native::reduce_kernel<512, 1, at::native::ReduceOp<float, at::native::func_wrapper_t"
    "<float, at::native::sum_functor<float, float, float> > > >(at::native::ReduceOp<float>)",
    "sm80_xmma_gemm_f32f32_f32f32_f32_tn_n_tilesize32x32x8_stage3_warpsize1x2x1_ffma_aligna4_alignc4_execute_kernel__51_cublas",
    "void (anonymous namespace)::softmax_warp_forward<float, float, float, 8, false, false>(float*, float const*, int, int, int, bool const*, int, bool)",
    "triton__0d1d2d3de", "void cutlass::Kernel<cutlass_80_tensorop_s1688gemm_128x128_16x5_nn_align4>(Params)",
    "fmha_fwd_kernel", "volta_sgemm_64x32_sliced1x4_nn",
]
COMM_KERNEL_NAMES = [
    "ncclKernel_AllReduce_RING_LL_Sum_float(ncclWorkElem)",
    "ncclKernel_AllGather_RING_LL_Sum_int8_t(ncclWorkElem)",
    "ncclKernel_ReduceScatter_RING_LL_Sum_float(ncclWorkElem)",
    "ncclDevKernel_AllReduce_Sum_f32_RING_LL(ncclDevComm*, unsigned long, ncclWork*)",
    "ncclKernel_SendRecv_RING_SIMPLE_Sum_int8_t(ncclWorkElem)",
]
MEMCPY_NAMES = [
    "Memcpy HtoD (Pageable -> Device)", "Memcpy DtoH (Device -> Pinned)",
    "Memcpy DtoD (Device -> Device)", "Memcpy HtoD (Pinned -> Device)",
    "Memcpy DtoH (Device -> Pageable)",
]
MEMSET_NAME = "Memset (Device)"
KERNEL_LAUNCH_CALLS = [("cudaLaunchKernel", "cuda_runtime", 6), ("cudaLaunchKernelExC", "cuda_runtime", 1),
                       ("cuLaunchKernel", "cuda_driver", 1)]
OTHER_RUNTIME_CALLS = ["cudaStreamIsCapturing", "cudaMalloc", "cudaFuncSetAttribute", "cudaGetDeviceCount",
                       "cudaStreamGetPriority", "cudaOccupancyMaxActiveBlocksPerMultiprocessorWithFlags",
                       "cudaPeekAtLastError", "cudaEventCreateWithFlags"]
# names that are special to some layer between the trace file and the result: pandas' NA strings, glob / regex
# characters, separators used by the tool's own output, numbers
ODD_NA_NAMES = ["None", "nan", "NA", "null", "N/A", "<unknown>", "True", "1e5", "007"]
ODD_GLOB_NAMES = ["layer[1]", "[pl][profile]run_training_batch", "model?fwd", "a*b", "aten::add.Tensor(self, other)"]
ODD_SEP_NAMES = ["op,with,comma", "op \"quoted\"", "op|pipe", "op\twith\ttab", "  padded  ", "été"]
ODD_OP_NAMES = ODD_NA_NAMES + ODD_GLOB_NAMES + ["layer1"] + ODD_SEP_NAMES
USER_ANNOTATIONS = ["## forward ##", "## loss ##", "## optimizer ##", "dataloader", "[param|forward]",
                    "nccl:all_reduce", "## zero_grad ##"]
FILE_NAME_PATTERNS = [
    "rank-{r}.json", "rank_{r}.pt.trace.json", "trace_{r}.json", "host{r}_1234.{r}.pt.trace.json",
    "r{r}.json",
]


def default_knobs(rng: Rng, profile: str) -> Dict[str, Any]:
    """Swarm knobs, drawn once per world.  ``profile`` biases them:
    loader / symtab  - loader-facing variety (weird entries, many ranks, fractional, order)
    cp               - causally consistent worlds for critical-path analysis
    callgraph        - call-graph histories (threads, launch patterns, width crossings)
    """
    k: Dict[str, Any] = {"profile": profile}
    if profile in ("loader", "symtab"):
        k["ranks"] = rng.weighted([(1, 6), (2, 8), (3, 5), (4, 3), (5, 1), (8, 1), (9, 2), (12, 1)])
    elif profile == "env":
        k["ranks"] = rng.weighted([(1, 2), (2, 6), (3, 4), (4, 2), (9, 1)])
    elif profile == "files":
        k["ranks"] = rng.weighted([(1, 6), (2, 5), (3, 2)])
    else:
        k["ranks"] = rng.weighted([(1, 8), (2, 4), (3, 1)])
    k["steps"] = rng.weighted([(0, 2), (1, 2), (2, 5), (3, 4), (4, 1)])
    if profile == "cp":
        k["steps"] = rng.weighted([(1, 2), (2, 4), (3, 3)])
    k["step_base"] = rng.choice([0, 1, 8, 9, 15, 98, 99, 100, 999, 1234])
    k["step_gap"] = rng.chance(0.35)
    k["pre_step_events"] = rng.chance(0.5)
    k["post_step_events"] = rng.chance(0.5)
    k["fractional"] = rng.chance(0.25) if profile != "callgraph" else rng.chance(0.1)
    if k["fractional"]:
        k["base_ts"] = rng.choice([0, 1000, 123456789, 10 ** 12, 9 * 10 ** 13])
    else:
        # small offsets and offsets just below 2**7 / 2**15 / 2**31 put the timestamps next to the
        # limits of the narrow integer types the parser downcasts to
        k["base_ts"] = rng.choice([0, 1, 100, 1000, 32000, 1_000_000, 2147483000, 1712867402348256,
                                   1695835542514261])
    k["tie_p"] = rng.choice([0.0, 0.1, 0.3, 0.6])
    k["zero_dur"] = (not k["fractional"]) and rng.chance(0.3) and profile in ("loader", "symtab", "env", "files")
    k["streams"] = rng.weighted([(1, 3), (2, 4), (3, 2), (4, 1)])
    k["ops_per_step"] = rng.weighted([(1, 2), (2, 3), (4, 3), (8, 2), (16, 1)])
    k["max_depth"] = rng.randint(1, 4)
    k["launch_p"] = rng.choice([0.2, 0.5, 0.8])
    k["kernel_missing_p"] = rng.choice([0.0, 0.0, 0.1, 0.3]) if profile != "cp" else rng.choice([0.0, 0.0, 0.1])
    k["orphan_kernels"] = rng.chance(0.25) and profile != "cp"
    k["sync_p"] = rng.choice([0.0, 0.1, 0.3]) if profile != "cp" else rng.choice([0.1, 0.2, 0.4])
    k["memcpy_p"] = rng.choice([0.0, 0.15, 0.3])
    k["comm_p"] = rng.choice([0.0, 0.2, 0.4])
    k["threads"] = rng.weighted([("main", 5), ("main+bwd", 5), ("main+bwd+other", 2), ("main+other", 2),
                                 ("main+bwd+bwd", 1), ("two-main", 1)])
    if profile == "cp":
        k["threads"] = rng.weighted([("main", 5), ("main+bwd", 4), ("main+other", 2)])
    k["bwd_annotation"] = rng.chance(0.6)
    # ranks of one job need not be annotated alike: later ranks may differ from the first in whether the main thread
    # carries a backward annotation and in their thread mix (seeded change c13j)
    k["hetero_ranks"] = profile == "callgraph" and rng.fork("hetero").chance(0.3)
    k["gpu_annotations"] = rng.chance(0.15) and profile not in ("cp",)
    k["vocab"] = rng.weighted([("shared", 4), ("disjoint", 3), ("nested", 2)])
    k["vocab_size"] = rng.weighted([(3, 2), (6, 3), (12, 2), (30, 1)])
    k["order"] = rng.weighted([("time", 3), ("grouped", 4), ("shuffled", 2)])
    k["format"] = rng.weighted([("gz", 4), ("json", 3), ("mixed", 2)])
    k["indent"] = rng.weighted([(None, 3), (2, 2)])
    k["naming"] = rng.below(len(FILE_NAME_PATTERNS))
    k["meta_noise"] = rng.chance(0.7)
    k["device_pid"] = rng.weighted([("zero", 5), ("local_rank", 3)])
    k["no_rank_meta"] = (k["ranks"] == 1) and rng.chance(0.2)
    k["rank_offset"] = rng.choice([0, 0, 0, 3, 10, 100])
    k["causal"] = profile == "cp" or rng.chance(0.6)
    k["event_sync"] = rng.chance(0.3) if profile == "cp" else False
    # events shorter than 1 us in fractional worlds (they round inward to zero or negative length):
    # only where no call stack is built from them
    k["tiny_events"] = bool(k["fractional"]) and profile in ("loader", "symtab") and rng.chance(0.5)
    k["flow_p"] = rng.choice([0.0, 0.5, 0.5])
    k["rank_at_border"] = profile == "files" and rng.chance(0.3)
    # (round 6) a device record written twice, legacy category of the step records, names that are special to
    # some library on the way (pandas' NA strings, glob characters, separators), exact symbol counts
    k["duplicate_device"] = profile in ("loader", "symtab") and rng.chance(0.1)
    k["step_cat"] = rng.weighted([("user_annotation", 17), ("Operator", 2), ("cpu_op", 1)]) if profile in ("loader", "symtab") else "user_annotation"
    k["odd_names"] = rng.chance(0.4 if profile == "callgraph" else 0.2)
    k["symbol_target"] = rng.choice([127, 128, 129, 255, 256, 257]) if (profile in ("loader", "symtab") and rng.chance(0.15)) else 0
    k["zero_dur_bwd_edge"] = profile == "callgraph" and rng.chance(0.3)
    # (round 7) a device-side copy of every step annotation (Kineto with GPU annotations on), correlation ids of
    # large magnitude, a backward annotation nested in another, host thread ids that equal a device's (id, stream)
    k["mirror_steps"] = profile in ("loader", "symtab") and rng.chance(0.12)
    k["corr_base"] = rng.choice([2**31 - 60, 2**32 + 5, 2**53 - 40, 2**53 + 1, 2**62]) if (profile in ("loader", "symtab") and rng.chance(0.1)) else 0
    k["nested_bwd"] = profile == "callgraph" and rng.chance(0.15)
    k["host_ids_as_device"] = profile == "callgraph" and rng.chance(0.08)
    # (round 8) magnitudes of the remaining id-like fields: stream ids are unsigned 32-bit in CUPTI, the step
    # counter is part of a name, a container's entry point is process 1 / thread 1
    k["big_streams"] = profile in ("loader", "symtab") and rng.chance(0.08)
    k["big_steps"] = profile in ("loader", "symtab") and rng.chance(0.08)
    k["small_tids"] = rng.choice([1, 2, 3]) if (profile == "callgraph" and rng.chance(0.12)) else 0
    k["long_kernels"] = profile in ("callgraph", "loader", "env") and rng.chance(0.12)
    k["name_explosion"] = 0
    k["zero_dur_kernels"] = (not k["fractional"]) and profile in ("callgraph", "loader", "symtab", "env") and rng.chance(0.3)
    k["corr_overlap"] = rng.chance(0.5)
    k["boundary"] = (not k["fractional"]) and profile in ("loader", "symtab") and rng.chance(0.25)
    k["first_in_step"] = k["steps"] > 0 and (not k["pre_step_events"]) and rng.chance(0.5)
    k["wide_ops"] = 0
    if profile == "callgraph":
        k["wide_ops"] = rng.weighted([(0, 6), (130, 2), (300, 1)])
        k["ops_per_step"] = rng.weighted([(1, 2), (2, 3), (4, 3), (8, 2), (16, 2), (32, 1)])
    k["clone_ranks"] = k["ranks"] > 1 and rng.chance(0.35 if profile == "env" else 0.1)
    if k["clone_ranks"] and profile == "env":
        # data-parallel ranks doing identical work: equal kernel durations on every rank, so that
        # per-kernel statistics across ranks tie (the straggler search breaks such ties)
        k["comm_p"] = 0.4
        k["launch_p"] = 0.8
        k["step_base"] = k["step_base"] or 15
        k["steps"] = max(k["steps"], 2)
        k["streams"] = max(k["streams"], 2)
        k["many_comm_names"] = True
    return k


class _RankGen:
    """Generates the events of one rank file."""

    def __init__(self, rng: Rng, knobs: Dict[str, Any], rank_pos: int, rank: int,
                 vocab: Dict[str, List[str]], step_names: List[str]) -> None:
        self.rng = rng
        self.k = knobs
        self.rank = rank
        self.vocab = vocab
        self.step_names = step_names
        self.frac = bool(knobs["fractional"])
        self.unit = 8 if self.frac else 1  # ticks per microsecond
        self.host_pid = 1000 + rank_pos * 17 + rng.below(5)
        self.dev = 0 if knobs["device_pid"] == "zero" else (rank_pos % 8)
        all_streams = [7, 20, 24, 28, 32]
        if knobs.get("big_streams"):
            all_streams = [2**31 + 7, 7, 2**32 - 1, 2**31 - 1, 2**16]
        n_streams = knobs["streams"]
        self.multi_thread = knobs["threads"] != "main"
        if knobs["causal"] and self.multi_thread:
            n_streams = max(2, n_streams)
        self.streams = all_streams[: n_streams]
        self.free_at: Dict[int, int] = {s: 0 for s in self.streams}
        self.cur_tid: Any = None
        self.main_tid: Any = None
        # per-process counters: ranks reuse each other's correlation ids unless the knob separates them
        self.corr = 100 + rng.below(50) + (0 if knobs.get("corr_overlap") else rank_pos * 100000)
        if knobs.get("corr_base"):
            self.corr = int(knobs["corr_base"]) + (0 if knobs.get("corr_overlap") else rank_pos * 100000)
        if knobs.get("small_tids"):
            self.host_pid = int(knobs["small_tids"])
        if knobs.get("host_ids_as_device"):
            # a containerised trainer: process id and thread id of the host thread equal the device id and the
            # stream id of its device activities
            self.dev = 7
            self.host_pid = 7
        self.ext_id = 1
        # entries: dicts with "_t" (sort time in ticks), "_grp" (host/device/other), event body
        self.entries: List[Dict[str, Any]] = []
        self.last_launch_on_stream: Dict[int, int] = {}
        self.event_records: List[Tuple[int, int]] = []  # (corr id of cudaEventRecord, stream)
        self.wide_done = False
        self.jrng: Optional[Rng] = None

    # -- helpers -----------------------------------------------------------------------------
    def us(self, ticks: int) -> Any:
        """ticks -> microseconds as written into the file"""
        if not self.frac:
            return int(ticks)
        q, r = divmod(ticks, 8)
        return q if r == 0 and self.rng_out.chance(0.5) else q + r / 8.0

    def min_dur(self) -> int:
        # fractional worlds: at least 2 us, so that a duration never rounds inward to zero or below
        if self.k.get("tiny_events"):
            return 1
        return 2 * self.unit if self.frac else 1

    def dur_ticks(self, lo_us: int, hi_us: int) -> int:
        d = self.rng.randint(lo_us * self.unit, hi_us * self.unit)
        if self.k.get("tiny_events") and self.rng.chance(0.2):
            d = self.rng.randint(1, self.unit)
        return max(d, self.min_dur())

    def gap(self, zero_ok: bool = True) -> int:
        if zero_ok and self.rng.chance(self.k["tie_p"]):
            return 0
        return self.rng.randint(1, 6 * self.unit)

    def next_corr(self) -> int:
        self.corr += self.rng.randint(1, 3)
        return self.corr

    def add_x(self, grp: str, cat: str, name: str, pid: Any, tid: Any, ts: int, dur: int,
              args: Optional[Dict[str, Any]]) -> Dict[str, Any]:
        ev: Dict[str, Any] = {"ph": "X", "cat": cat, "name": name, "pid": pid, "tid": tid,
                              "_ts": ts, "_dur": dur}
        if args is None and self.k.get("always_args"):
            args = {"External id": self.ext_id}
        if args is not None:
            ev["args"] = args
        self.entries.append({"_t": ts, "_grp": grp, "ev": ev})
        return ev

    def add_other(self, ts: int, body: Dict[str, Any], with_ts: bool = True) -> None:
        ev = dict(body)
        if with_ts:
            ev["_ts"] = ts
        self.entries.append({"_t": ts, "_grp": "other", "ev": ev})

    def my_streams(self) -> List[int]:
        """Causal multi-thread worlds: threads are generated one after the other, so a
        synchronising call can only know about work that was generated before it.  Each
        thread therefore feeds its own streams (the main thread the first half, all other
        threads the rest) and the main thread issues no device-wide synchronisation."""
        if not (self.k["causal"] and self.multi_thread):
            return self.streams
        half = (len(self.streams) + 1) // 2
        if self.cur_tid == self.main_tid:
            return self.streams[:half]
        return self.streams[half:] or self.streams[-1:]

    # -- device side -------------------------------------------------------------------------
    def emit_device_activity(self, kind: str, launch_ts: int, launch_end: int, corr: int) -> None:
        stream = self.rng.choice(self.my_streams())
        r = self.rng
        if self.k["causal"] or r.chance(0.8):
            earliest = launch_ts + r.randint(0, 8 * self.unit)
            if self.jrng is not None:
                earliest += self.jrng.randint(0, 20 * self.unit)
        else:
            earliest = max(0, launch_ts - r.randint(0, 5 * self.unit))
        start = max(earliest, self.free_at[stream] + (0 if r.chance(self.k["tie_p"]) else r.randint(1, 4 * self.unit)))
        if kind == "kernel":
            if r.chance(self.k["comm_p"]):
                name = r.choice(self.vocab["comm"])
            else:
                name = r.choice(self.vocab["kernels"])
            cat = "kernel"
            dur = self.dur_ticks(1, 40)
            if self.k.get("zero_dur_kernels") and r.chance(0.15):
                dur = 0  # Kineto reports very short kernels with a duration of 0 us
            elif self.k.get("long_kernels") and r.chance(0.08):
                # a hung collective / a capture that ran for a long time: tens of minutes in one kernel
                dur = r.randint(1_200_000_000, 2_600_000_000) * self.unit
            args = {"External id": self.ext_id, "queued": 0, "device": self.dev, "context": 1,
                    "stream": stream, "correlation": corr, "registers per thread": 32,
                    "shared memory": 0, "grid": [r.randint(1, 64), 1, 1], "block": [128, 1, 1]}
        elif kind == "memcpy":
            name = r.choice(MEMCPY_NAMES)
            cat = "gpu_memcpy"
            dur = self.dur_ticks(1, 30)
            nbytes = r.randint(1, 1 << 20)
            args = {"External id": self.ext_id, "device": self.dev, "context": 1, "stream": stream,
                    "correlation": corr, "bytes": nbytes,
                    "memory bandwidth (GB/s)": round(nbytes / max(dur / self.unit, 1) / 1000.0, 6)}
        else:
            name = MEMSET_NAME
            cat = "gpu_memset"
            dur = self.dur_ticks(1, 5)
            nbytes = r.randint(1, 1 << 16)
            args = {"External id": self.ext_id, "device": self.dev, "context": 1, "stream": stream,
                    "correlation": corr, "bytes": nbytes,
                    "memory bandwidth (GB/s)": round(nbytes / max(dur / self.unit, 1) / 1000.0, 6)}
        if r.chance(0.15):
            # Kineto sometimes writes the stream as a string
            args["stream"] = str(stream)
        self.add_x("device", cat, name, self.dev, stream, start, dur, args)
        self.free_at[stream] = start + dur
        self.last_launch_on_stream[stream] = corr

    def emit_sync_activity(self, name: str, stream: int, ts: int, dur: int, corr: int,
                           extra: Optional[Dict[str, Any]] = None) -> None:
        args = {"External id": self.ext_id, "cuda_sync_kind": name, "stream": stream, "correlation": corr,
                "device": self.dev, "context": 1}
        if extra:
            args.update(extra)
        tid = stream
        self.add_x("device", "cuda_sync", name, self.dev, tid, ts, dur, args)

    # -- host side ---------------------------------------------------------------------------
    def emit_leaf_runtime(self, pid: int, tid: int, t: int) -> int:
        """One CUDA runtime call at time t on a host thread; returns its end time."""
        r = self.rng
        k = self.k
        self.ext_id += 1
        self.cur_tid = tid
        x = r.random()
        sync_p = k["sync_p"]
        if x < sync_p:
            # synchronising call
            corr = self.next_corr()
            kinds = ["stream", "device"]
            if k["causal"] and self.multi_thread and tid == self.main_tid:
                kinds = ["stream"]
            if k["event_sync"]:
                kinds += ["event_record", "event_sync", "stream_wait"]
            kind = r.choice(kinds)
            if kind == "stream":
                s = r.choice(self.my_streams())
                waited = self.free_at[s]
                end = max(t + self.dur_ticks(1, 6), waited + r.randint(0, 2 * self.unit)) if k["causal"] \
                    else t + self.dur_ticks(1, 12)
                self.add_x("host", "cuda_runtime", "cudaStreamSynchronize", pid, tid, t, end - t,
                           {"External id": self.ext_id, "cbid": 131, "correlation": corr})
                s_ts = min(t + r.randint(0, self.unit), end - 1) if end - t > 1 else t
                self.emit_sync_activity("Stream Sync", s, s_ts, max(end - s_ts - r.randint(0, 1), self.min_dur()), corr)
                return end
            if kind == "device":
                waited = max(self.free_at.values())
                end = max(t + self.dur_ticks(1, 6), waited + r.randint(0, 2 * self.unit)) if k["causal"] \
                    else t + self.dur_ticks(1, 12)
                self.add_x("host", "cuda_runtime", "cudaDeviceSynchronize", pid, tid, t, end - t,
                           {"External id": self.ext_id, "cbid": 165, "correlation": corr})
                s_ts = min(t + r.randint(0, self.unit), end - 1) if end - t > 1 else t
                self.emit_sync_activity("Context Sync", -1, s_ts, max(end - s_ts - r.randint(0, 1), self.min_dur()), corr)
                return end
            if kind == "event_record":
                s = r.choice(self.my_streams())
                d = self.dur_ticks(1, 4)
                self.add_x("host", "cuda_runtime", "cudaEventRecord", pid, tid, t, d,
                           {"External id": self.ext_id, "cbid": 135, "correlation": corr})
                self.event_records.append((corr, s))
                return t + d
            mine = [er for er in self.event_records if er[1] in self.my_streams()]
            if kind == "event_sync" and mine:
                rec_corr, s = r.choice(mine)
                waited = self.free_at[s]
                end = max(t + self.dur_ticks(1, 6), waited + r.randint(0, 2 * self.unit))
                self.add_x("host", "cuda_runtime", "cudaEventSynchronize", pid, tid, t, end - t,
                           {"External id": self.ext_id, "cbid": 137, "correlation": corr})
                s_ts = min(t + 1, end - 1) if end - t > 1 else t
                self.emit_sync_activity("Event Sync", -1, s_ts, max(end - s_ts, self.min_dur()), corr,
                                        {"wait_on_stream": s, "wait_on_cuda_event_record_corr_id": rec_corr,
                                         "wait_on_cuda_event_id": 9})
                return end
            if kind == "stream_wait" and mine and len(self.my_streams()) > 1:
                rec_corr, s = r.choice(mine)
                others = [q for q in self.my_streams() if q != s]
                dst = r.choice(others)
                d = self.dur_ticks(1, 4)
                self.add_x("host", "cuda_runtime", "cudaStreamWaitEvent", pid, tid, t, d,
                           {"External id": self.ext_id, "cbid": 147, "correlation": corr})
                self.emit_sync_activity("Stream Wait Event", dst, t + 1 if d > 1 else t, self.min_dur(), corr,
                                        {"wait_on_stream": s, "wait_on_cuda_event_record_corr_id": rec_corr,
                                         "wait_on_cuda_event_id": 1})
                return t + d
            # fall through to a plain call
        x = r.random()
        if x < k["memcpy_p"]:
            corr = self.next_corr()
            which = r.choice(["memcpy", "memcpy", "memset"])
            d = self.dur_ticks(1, 10)
            name = "cudaMemcpyAsync" if which == "memcpy" else "cudaMemsetAsync"
            self.add_x("host", "cuda_runtime", name, pid, tid, t, d,
                       {"External id": self.ext_id, "cbid": 41 if which == "memcpy" else 51, "correlation": corr})
            if not r.chance(k["kernel_missing_p"]):
                self.emit_device_activity(which, t, t + d, corr)
                self.flow(t, pid, tid, corr)
            return t + d
        if x < k["memcpy_p"] + k.get("other_call_p", 0.2):
            # a runtime call that launches nothing (has a correlation id, no device partner)
            corr = self.next_corr()
            name = r.choice(OTHER_RUNTIME_CALLS)
            zero = self.k["zero_dur"] and r.chance(0.3)
            d = 0 if zero else self.dur_ticks(1, 5)
            self.add_x("host", "cuda_runtime", name, pid, tid, t, d,
                       {"External id": self.ext_id, "cbid": 317, "correlation": corr})
            return t + d
        corr = self.next_corr()
        name, cat, _w = r.weighted([(c, c[2]) for c in KERNEL_LAUNCH_CALLS])
        d = self.dur_ticks(1, 12)
        self.add_x("host", cat, name, pid, tid, t, d,
                   {"External id": self.ext_id, "cbid": 211, "correlation": corr})
        if not r.chance(k["kernel_missing_p"]):
            self.emit_device_activity("kernel", t, t + d, corr)
            self.flow(t, pid, tid, corr)
        return t + d

    def flow(self, t: int, pid: int, tid: int, corr: int) -> None:
        if self.rng.chance(self.k.get("flow_p", 0.5)):
            self.add_other(t, {"ph": "s", "id": corr, "pid": pid, "tid": tid, "cat": "ac2g", "name": "ac2g"})

    def emit_op(self, pid: int, tid: int, t: int, depth: int, names: List[str], budget: List[int],
                child_names: Optional[List[str]] = None) -> int:
        """Emit one host operator (with nested children) starting at t; returns its end."""
        r = self.rng
        self.ext_id += 1
        name = r.choice(names)
        ev = self.add_x("host", "cpu_op", name, pid, tid, t, 0,
                        {"External id": self.ext_id, "Ev Idx": self.ext_id, "Sequence number": r.randint(0, 500)}
                        if r.chance(0.8) else None)
        budget[0] -= 1
        cur = t + self.gap()
        n_children = 0
        if depth < self.k["max_depth"] and budget[0] > 0:
            n_children = r.weighted([(0, 2), (1, 4), (2, 3), (3, 1), (6, 1)])
        for _ in range(n_children):
            if budget[0] <= 0:
                break
            if r.chance(self.k["launch_p"]):
                budget[0] -= 1
                cur = self.emit_leaf_runtime(pid, tid, cur)
            else:
                cur = self.emit_op(pid, tid, cur, depth + 1, child_names or names, budget, child_names)
            cur += self.gap()
        end = max(cur + self.gap(), t + self.min_dur())
        ev["_dur"] = end - t
        return end

    def emit_wide_op(self, pid: int, tid: int, t: int, n: int) -> int:
        """One operator that launches n kernels directly (crosses the int8 width of num_kernels)."""
        self.ext_id += 1
        ev = self.add_x("host", "cpu_op", self.rng.choice(self.vocab["ops"]), pid, tid, t, 0,
                        {"External id": self.ext_id})
        cur = t + self.gap()
        saved = (self.k["sync_p"], self.k["memcpy_p"], self.k["kernel_missing_p"])
        self.k["sync_p"], self.k["memcpy_p"], self.k["kernel_missing_p"] = 0.0, 0.0, 0.0
        try:
            for _ in range(n):
                cur = self.emit_leaf_runtime(pid, tid, cur) + self.gap()
        finally:
            self.k["sync_p"], self.k["memcpy_p"], self.k["kernel_missing_p"] = saved
        end = max(cur + self.gap(), t + self.min_dur())
        ev["_dur"] = end - t
        return end

    def emit_annotation(self, pid: int, tid: int, t: int, name: str, body) -> int:
        """Emit a user annotation that encloses whatever ``body(start)`` emits."""
        cat = self.k.get("step_cat", "user_annotation") if name.startswith("ProfilerStep") else "user_annotation"
        ev = self.add_x("host", cat, name, pid, tid, t, 0,
                        {"External id": self.ext_id, "Ev Idx": self.ext_id} if self.rng.chance(0.7) else None)
        cur = body(t + self.gap())
        end = max(cur + self.gap(), t + self.min_dur())
        ev["_dur"] = end - t
        return end

    # -- whole rank --------------------------------------------------------------------------
    def generate(self, rng_out: Rng) -> List[Dict[str, Any]]:
        self.rng_out = rng_out
        r = self.rng
        k = self.k
        threads = k["threads"].split("+") if k["threads"] != "two-main" else ["main", "main2"]
        main_tid = self.host_pid  # Kineto: main thread tid == pid
        self.main_tid = main_tid
        self.cur_tid = main_tid
        t = r.randint(2 * self.unit, 20 * self.unit)
        # the mandatory first event: a host operator without a correlation id
        first_names = self.vocab["ops"]
        budget = [3]
        if k["pre_step_events"] or k["steps"] == 0:
            pass
        first_start = t
        t0_end = self.emit_op(self.host_pid, main_tid, t, k["max_depth"], first_names, [1])  # leaf op
        t = t0_end + self.gap(zero_ok=False)
        for i in range(int(k.get("name_explosion") or 0)):
            # many operators with names of their own: the symbol table grows past the narrow integer widths
            self.ext_id += 1
            d = 3 * self.unit
            self.add_x("host", "cpu_op", f"custom::op_{self.rank}_{i}", self.host_pid, main_tid, t, d,
                       {"External id": self.ext_id})
            t += d + (self.unit if self.frac else 1)
        bwd_windows: List[Tuple[int, int]] = []
        step_windows: List[Tuple[int, int]] = []

        def step_body_factory(step_idx: int):
            def body(start: int) -> int:
                cur = start
                n_ops = k["ops_per_step"]
                bud = [max(4, n_ops * 6)]
                sections = ["fwd"]
                if "bwd" in threads:
                    sections.append("bwd")
                sections.append("opt")
                for sec in sections:
                    if sec == "bwd":
                        def bwd_body(s: int) -> int:
                            # main thread mostly idle while the autograd thread works
                            e = s + self.dur_ticks(10, 60) + n_ops * 10 * self.unit
                            bwd_windows.append((s, e))
                            return e
                        if k["bwd_annotation"] and k.get("nested_bwd"):
                            def outer_body(s: int) -> int:
                                e = bwd_body(s)
                                # a second backward annotation strictly inside the first: operators of the autograd
                                # thread behind it lie within the outer one only
                                q = (e - s) // 4
                                if q >= 2 * self.min_dur() + 2:
                                    self.add_x("host", "user_annotation", "## backward ##", self.host_pid, main_tid,
                                               s + q, q, {"External id": self.ext_id} if self.rng.chance(0.5) else None)
                                return e
                            cur = self.emit_annotation(self.host_pid, main_tid, cur, "## backward ##", outer_body)
                        elif k["bwd_annotation"]:
                            cur = self.emit_annotation(self.host_pid, main_tid, cur, "## backward ##", bwd_body)
                        else:
                            cur = bwd_body(cur)
                    else:
                        def sec_body(s: int) -> int:
                            c = s
                            if k.get("wide_ops") and not self.wide_done:
                                self.wide_done = True
                                c = self.emit_wide_op(self.host_pid, main_tid, c, k["wide_ops"]) + self.gap()
                            for _ in range(max(1, n_ops // 2)):
                                c = self.emit_op(self.host_pid, main_tid, c, 0, self.vocab["ops"], bud)
                                c += self.gap()
                            return c
                        if r.chance(0.4):
                            cur = self.emit_annotation(self.host_pid, main_tid, cur, r.choice(self.vocab["annotations"]), sec_body)
                        else:
                            cur = sec_body(cur)
                    cur += self.gap()
                return cur
            return body

        if k["pre_step_events"] and k["steps"] > 0:
            for _ in range(r.randint(1, 3)):
                t = self.emit_op(self.host_pid, main_tid, t, 0, self.vocab["ops"], [6])
                t += self.gap()
        if k["steps"] == 0:
            body = step_body_factory(0)
            t = body(t)
        for si in range(k["steps"]):
            s0 = t
            if si == 0 and k.get("first_in_step") and first_start > 0:
                # the first step starts before the file's first event (event 0 then carries an iteration)
                s0 = max(0, first_start - self.gap(zero_ok=False))
                ev = self.add_x("host", k.get("step_cat", "user_annotation"), self.step_names[0], self.host_pid, main_tid, s0, 0,
                                {"External id": self.ext_id})
                cur = step_body_factory(0)(t)
                t = max(cur + self.gap(), s0 + self.min_dur())
                ev["_dur"] = t - s0
            else:
                t = self.emit_annotation(self.host_pid, main_tid, t, self.step_names[si], step_body_factory(si))
            step_windows.append((s0, t))
            if k["step_gap"]:
                t += r.randint(1, 30 * self.unit)
                if r.chance(0.5):
                    t = self.emit_op(self.host_pid, main_tid, t, 0, self.vocab["ops"], [4])
                    t += self.gap(zero_ok=False)
            else:
                t += self.gap()
        if k["post_step_events"] and k["steps"] > 0:
            for _ in range(r.randint(1, 3)):
                t = self.emit_op(self.host_pid, main_tid, t, 0, self.vocab["ops"], [6])
                t += self.gap()
        main_end = t

        # autograd thread(s): top-level operators inside the backward windows
        n_bwd = threads.count("bwd")
        for bi in range(n_bwd):
            tid = main_tid + 1 + bi
            for (s, e) in bwd_windows:
                cur = s + self.gap()
                tries = 0
                while tries < 1 + k["ops_per_step"] // 2:
                    tries += 1
                    fn = r.choice(self.vocab["bwd"])
                    saved = len(self.entries)
                    saved_state = (dict(self.free_at), self.corr, self.ext_id, dict(self.last_launch_on_stream),
                                   list(self.event_records))
                    end = self.emit_op(self.host_pid, tid, cur, max(0, k["max_depth"] - 2),
                                       ["autograd::engine::evaluate_function: " + fn], [6],
                                       child_names=[fn] + self.vocab["ops"])
                    if end > e or (end == e and not r.chance(k["tie_p"])):
                        # does not fit inside the window: roll back
                        del self.entries[saved:]
                        self.free_at, self.corr, self.ext_id, self.last_launch_on_stream, self.event_records = (
                            saved_state[0], saved_state[1], saved_state[2], saved_state[3], saved_state[4])
                        break
                    cur = end + self.gap()
                if k.get("zero_dur_bwd_edge") and not self.frac and cur <= e - 1 and r.chance(0.7):
                    # a zero-width top-level autograd operator at the closing instant of the window; nothing
                    # else on this thread touches that instant
                    self.ext_id += 1
                    self.add_x("host", "cpu_op", "autograd::engine::evaluate_function: " + r.choice(self.vocab["bwd"]),
                               self.host_pid, tid, e, 0, {"External id": self.ext_id})
            if not bwd_windows and k["steps"] == 0:
                self.emit_op(self.host_pid, tid, r.randint(0, max(1, main_end)), 1,
                             ["autograd::engine::evaluate_function: " + r.choice(self.vocab["bwd"])], [4])
        if "bwd" in threads and n_bwd and r.chance(0.3):
            # some autograd work outside any window (must stay top-level)
            tid = main_tid + 1
            last = max((e for (_s, e) in bwd_windows), default=main_end)
            self.emit_op(self.host_pid, tid, max(last, main_end) + r.randint(1, 10 * self.unit), 1,
                         ["autograd::engine::evaluate_function: " + r.choice(self.vocab["bwd"])], [4])
        if "other" in threads:
            tid = main_tid + 7
            cur = r.randint(0, max(1, main_end // 2))
            for _ in range(r.randint(1, 4)):
                cur = self.emit_op(self.host_pid, tid, cur, 1, self.vocab["ops"], [5])
                cur += r.randint(1, 40 * self.unit)
        if "main2" in threads:
            # a second thread that also carries profiler steps
            tid = main_tid + 3
            for si, (s0, e0) in enumerate(step_windows):
                ev = self.add_x("host", "user_annotation", self.step_names[si], self.host_pid, tid, s0 + 1, max(e0 - s0 - 2, self.min_dur()), None)
                _ = ev

        if k["orphan_kernels"]:
            # device activities whose launch is outside the trace
            for _ in range(r.randint(1, 3)):
                self.ext_id += 1
                corr = self.next_corr()
                self.emit_device_activity(r.choice(["kernel", "kernel", "memcpy"]), r.randint(0, max(1, main_end)), 0, corr)
            if r.chance(0.4):
                # a device activity without any correlation id
                s = r.choice(self.streams)
                st = self.free_at[s] + r.randint(1, 5 * self.unit)
                d = self.dur_ticks(1, 10)
                self.add_x("device", "kernel", r.choice(self.vocab["kernels"]), self.dev, s, st, d,
                           {"External id": self.ext_id, "device": self.dev, "context": 1, "stream": s})
                self.free_at[s] = st + d
        if k["gpu_annotations"]:
            for s in self.streams[:2]:
                span_end = self.free_at[s]
                if span_end > 10:
                    self.add_x("device", "gpu_user_annotation", "gpu_ann_" + r.choice(["fwd", "bwd", "step"]),
                               self.dev, s, r.randint(0, span_end // 2), max(span_end // 3, self.min_dur()),
                               {"External id": self.ext_id})

        if k.get("mirror_steps"):
            # Kineto with GPU annotations on records a finished step a second time on the device side: same name,
            # no stream argument, starting later and ending earlier than the host annotation
            for si, (s0, e0) in enumerate(step_windows):
                q = (e0 - s0) // 4
                if q >= max(2 * self.unit, 2):
                    self.add_x("device", "gpu_user_annotation", self.step_names[si], self.dev, self.streams[0],
                               s0 + q, q, {"External id": self.ext_id} if r.chance(0.5) else None)
        if k.get("duplicate_device"):
            devs = [e for e in self.entries if e["_grp"] == "device" and e["ev"].get("cat") in ("kernel", "gpu_memcpy")
                    and "correlation" in (e["ev"].get("args") or {})]
            if devs:
                src = r.choice(devs)
                import copy as _copy
                self.entries.append({"_t": src["_t"], "_grp": "device", "ev": _copy.deepcopy(src["ev"])})
        trace_end = max([main_end] + list(self.free_at.values())) + 10 * self.unit
        # non-complete entries
        if k["meta_noise"]:
            self.add_other(0, {"name": "process_name", "ph": "M", "pid": self.host_pid, "tid": 0,
                               "args": {"name": "python3.10"}}, with_ts=r.chance(0.7))
            self.add_other(0, {"name": "process_labels", "ph": "M", "pid": self.host_pid, "tid": 0,
                               "args": {"labels": "CPU"}}, with_ts=r.chance(0.7))
            self.add_other(0, {"name": "thread_name", "ph": "M", "pid": self.host_pid, "tid": main_tid,
                               "args": {"name": "thread 1 (python3.10)"}}, with_ts=r.chance(0.7))
            self.add_other(0, {"name": "process_name", "ph": "M", "pid": self.dev, "tid": 0,
                               "args": {"name": "python3.10"}}, with_ts=r.chance(0.7))
            # the profiler's own span: string pid / tid, category "Trace"
            ev = {"ph": "X", "cat": "Trace", "pid": "Spans", "tid": "PyTorch Profiler",
                  "name": "PyTorch Profiler (0)", "args": {"Op count": 0}, "_ts": 0, "_dur": trace_end}
            self.entries.append({"_t": 0, "_grp": "other", "ev": ev})
            self.add_other(0, {"name": "process_sort_index", "ph": "M", "pid": "Spans", "tid": 0,
                               "args": {"sort_index": 536870912}}, with_ts=True)
            self.add_other(0, {"name": "Iteration Start: PyTorch Profiler", "ph": "i", "s": "g",
                               "pid": "Traces", "tid": "Trace PyTorch Profiler"})
            self.add_other(trace_end, {"name": "Record Window End", "ph": "i", "s": "g", "pid": "", "tid": ""})
            if r.chance(0.3):
                # a counter entry (no dur, no cat), as the tool itself appends them
                self.add_other(r.randint(0, trace_end), {"ph": "C", "name": "Queue Length", "pid": self.dev,
                                                         "id": 7, "args": {"Queue Length": 1}})
            if r.chance(0.2):
                # a complete-looking entry without a category: not a complete event
                ev = {"ph": "X", "name": "uncategorised", "pid": self.host_pid, "tid": main_tid,
                      "_ts": r.randint(0, trace_end), "_dur": 3 * self.unit}
                self.entries.append({"_t": ev["_ts"], "_grp": "other", "ev": ev})
            if r.chance(0.2):
                # an entry with a category but no duration
                self.add_other(r.randint(0, trace_end), {"ph": "i", "cat": "cpu_instant_event", "name": "marker",
                                                         "pid": self.host_pid, "tid": main_tid, "s": "t"})
        return self.entries


def _count_symbols(entries: List[Dict[str, Any]]) -> int:
    """Distinct strings among the categories and names of the complete events (what the parser's local
    symbol table will hold)."""
    syms = set()
    for e in entries:
        ev = e["ev"]
        if "_dur" in ev and ev.get("cat") not in (None, "Trace"):
            syms.add(ev["cat"])
            syms.add(ev.get("name"))
    return len(syms)


def _order_entries(rng: Rng, entries: List[Dict[str, Any]], order: str) -> List[Dict[str, Any]]:
    first = entries[0]
    rest = entries[1:]
    if order == "time":
        # stable sort by time keeps parents (generated first) before children at equal times
        rest = sorted(rest, key=lambda e: e["_t"])
    elif order == "grouped":
        host = [e for e in rest if e["_grp"] == "host"]
        dev = [e for e in rest if e["_grp"] == "device"]
        oth = [e for e in rest if e["_grp"] == "other"]
        dev = sorted(dev, key=lambda e: e["_t"])
        rest = host + dev + oth
    else:
        rng.shuffle(rest)
    return [first] + rest


def _vocab_for_rank(rng: Rng, knobs: Dict[str, Any], rank_pos: int, base: Dict[str, List[str]]) -> Dict[str, List[str]]:
    mode = knobs["vocab"]
    if mode == "shared":
        return base
    out: Dict[str, List[str]] = {}
    for key, names in base.items():
        if key in ("annotations",):
            out[key] = names
            continue
        if mode == "disjoint":
            if key == "comm":
                out[key] = [n.replace("(", f"_r{rank_pos}(", 1) if "(" in n else n + f"_r{rank_pos}" for n in names]
            else:
                out[key] = [f"{n}_r{rank_pos}" for n in names]
        else:  # nested: rank i uses a prefix of the vocabulary of growing size
            n = max(1, (len(names) * (rank_pos + 1)) // knobs["ranks"])
            out[key] = names[:n]
    return out


def gen_world(rng: Rng, profile: str = "loader", overrides: Optional[Dict[str, Any]] = None) -> Dict[str, Any]:
    knobs = default_knobs(rng.fork("knobs"), profile)
    if overrides:
        knobs.update(overrides)
    if knobs.get("wide_ops") == -1:
        knobs["wide_ops"] = rng.fork("wide").choice([32768, 32770, 33000, 36000, 66000])
    fam = knobs.get("symbol_family")
    if fam:
        # per-rank symbol counts on both sides of the widths of 16-bit integers
        fr = rng.fork("symfam")
        sizes = {"int16": [32767, 32768, 32769, 32770], "uint16": [65535, 65536, 65537, 32769]}[fam]
        fr.shuffle(sizes)
        knobs["ranks"] = len(sizes)
        knobs["symbol_targets"] = {i: n for i, n in enumerate(sizes)}
    vr = rng.fork("vocab")
    vs = knobs["vocab_size"]
    base_vocab = {
        "ops": vr.sample(OP_NAMES, min(vs, len(OP_NAMES))),
        "bwd": vr.sample(BWD_NAMES, min(max(2, vs // 2), len(BWD_NAMES))),
        "kernels": vr.sample(KERNEL_NAMES, min(max(2, vs // 2), len(KERNEL_NAMES))),
        "comm": vr.sample(COMM_KERNEL_NAMES, len(COMM_KERNEL_NAMES) if knobs.get("many_comm_names")
                          else min(max(1, vs // 4), len(COMM_KERNEL_NAMES))),
        "annotations": vr.sample(USER_ANNOTATIONS, min(3, len(USER_ANNOTATIONS))),
    }
    if knobs.get("odd_names"):
        # one name of every family (each family is syntax to a different layer), plus the look-alike of a glob name
        odd = [vr.choice(ODD_NA_NAMES), vr.choice(ODD_GLOB_NAMES), vr.choice(ODD_SEP_NAMES)]
        if "layer[1]" in odd:
            odd.append("layer1")
        base_vocab["ops"] = base_vocab["ops"] + odd
    if knobs.get("big_steps"):
        knobs["step_base"] = rng.fork("bigsteps").choice([2**31 - 2, 2**31 + 5, 2**32 - 1, 2**32 + 1, 2**40])
    step_names = [f"ProfilerStep#{knobs['step_base'] + i}" for i in range(knobs["steps"])]
    files = []
    generated: List[Any] = []
    pattern = FILE_NAME_PATTERNS[knobs["naming"]]
    if knobs["ranks"] != 1:
        knobs["no_rank_meta"] = False
    for pos in range(knobs["ranks"]):
        rank = pos + knobs["rank_offset"]
        if knobs["no_rank_meta"]:
            rank = 0  # a file that records no rank is loaded as rank 0
        rr = rng.fork(f"rank{pos}")
        vocab = _vocab_for_rank(rr.fork("v"), knobs, pos, base_vocab)
        if knobs.get("clone_ranks"):
            # every rank draws the same structure and durations; only launch delays differ
            vocab = base_vocab
            g = _RankGen(rng.fork("rank-shared"), knobs, pos, rank, vocab, step_names)
            g.jrng = rr.fork("jitter")
        else:
            kr = knobs
            if knobs.get("hetero_ranks") and pos > 0:
                kr = dict(knobs)
                hr = rr.fork("hetero")
                if hr.chance(0.6):
                    kr["bwd_annotation"] = not knobs["bwd_annotation"]
                if hr.chance(0.3):
                    kr["threads"] = hr.choice(["main", "main+bwd", "main+bwd", "main+other"])
            g = _RankGen(rr.fork("g"), kr, pos, rank, vocab, step_names)
        entries = g.generate(rr.fork("out"))
        st = knobs.get("symbol_targets") or {}
        target = st.get(pos) or st.get(str(pos)) or knobs.get("symbol_target") or 0
        if target and not knobs.get("name_explosion"):
            have = _count_symbols(entries)
            if target > have:
                # generate again with exactly the missing number of operator names of their own (the extra
                # operators draw nothing from the generator's stream, so the rest of the rank is unchanged)
                k2 = dict(knobs)
                k2["name_explosion"] = target - have
                if knobs.get("clone_ranks"):
                    g = _RankGen(rng.fork("rank-shared"), k2, pos, rank, vocab, step_names)
                    g.jrng = rr.fork("jitter")
                else:
                    if knobs.get("hetero_ranks") and pos > 0:
                        k2["bwd_annotation"], k2["threads"] = kr["bwd_annotation"], kr["threads"]
                    g = _RankGen(rr.fork("g"), k2, pos, rank, vocab, step_names)
                entries = g.generate(rr.fork("out"))
        entries = _order_entries(rr.fork("order"), entries, knobs["order"])
        generated.append((pos, rank, rr, entries))
    if knobs.get("boundary") and not knobs["fractional"]:
        # put the latest start of any complete event just below the limit of a narrow integer
        # type: all starts fit the type, the last end does not
        m = max((e["ev"]["_ts"] for (_p, _r, _rr, ents) in generated for e in ents
                 if "_dur" in e["ev"] and e["ev"].get("cat") not in (None, "Trace")), default=0)
        br = rng.fork("boundary")
        limit = br.choice([127, 32767, 32767, 2147483647])
        if limit - m < 0:
            limit = 32767 if m <= 32767 else 2147483647
        knobs["base_ts"] = max(0, limit - m - br.randint(0, 2))
    for pos, rank, rr, entries in generated:
        base = knobs["base_ts"]
        out_rng = rr.fork("render")
        events = []
        for e in entries:
            ev = dict(e["ev"])
            ts = ev.pop("_ts", None)
            dur = ev.pop("_dur", None)
            body = {}
            # Kineto key order: ph, cat, name, pid, tid, ts, dur, args
            for key in ("ph", "cat", "name", "pid", "tid"):
                if key in ev:
                    body[key] = ev[key]
            if ts is not None:
                body["ts"] = _render_time(out_rng, knobs, base, ts)
            if dur is not None:
                body["dur"] = _render_dur(out_rng, knobs, dur)
            for key, v in ev.items():
                if key not in body:
                    body[key] = v
            events.append(body)
        doc: Dict[str, Any] = {"schemaVersion": 1}
        if knobs["meta_noise"]:
            doc["deviceProperties"] = [{"id": 0, "name": "NVIDIA A100-SXM4-40GB", "totalGlobalMem": 42505273344,
                                        "computeMajor": 8, "computeMinor": 0, "numSms": 108}]
        if not knobs["no_rank_meta"]:
            doc["distributedInfo"] = {"backend": "nccl", "rank": rank, "world_size": knobs["ranks"]}
        if knobs["meta_noise"]:
            doc["with_stack"] = 0
            doc["traceName"] = pattern.format(r=rank)
            doc["baseTimeNanoseconds"] = 0
            doc["displayTimeUnit"] = "ms"
        doc["traceEvents"] = events
        fmt = knobs["format"]
        if fmt == "mixed":
            fmt = "gz" if rr.fork("fmt").chance(0.5) else "json"
        name = pattern.format(r=rank) + (".gz" if fmt == "gz" else "")
        f_rec = {"name": name, "format": fmt, "indent": knobs["indent"], "rank": rank, "doc": doc}
        if knobs.get("rank_at_border") and "distributedInfo" in doc and pos == 0:
            _align_rank_text(rr.fork("border"), f_rec)
        files.append(f_rec)
    return {"knobs": knobs, "files": files}


def _align_rank_text(rng: Rng, f: Dict[str, Any]) -> None:
    """Move the rank metadata behind the events (as update_trace_rank does for files that had none) and pad
    the document so that the text `"rank": N` straddles a power-of-two offset of the (uncompressed) stream:
    readers that scan the file in fixed-size blocks meet the text split across two blocks."""
    doc = f["doc"]
    di = doc.pop("distributedInfo")
    doc["padding"] = ""
    doc["distributedInfo"] = di
    raw = render_file_bytes(f)
    marker = b'"rank": '
    at = raw.rfind(marker)
    if at < 0:
        return
    first_digit = at + len(marker)
    n_digits = len(str(di["rank"]))
    block = 1 << rng.choice([10, 12, 13, 13, 16, 16, 20])
    # where the border falls, relative to the first digit: inside the key text or between two digits
    rel = rng.randint(-(len(marker) - 1), max(0, n_digits - 1))
    pad = (-(first_digit + rel)) % block
    doc["padding"] = "x" * pad
    f["border"] = {"block": block, "relative_to_first_digit": rel}


def _render_time(rng: Rng, knobs: Dict[str, Any], base: int, ticks: int) -> Any:
    if not knobs["fractional"]:
        return base + int(ticks)
    q, r = divmod(ticks, 8)
    if r == 0:
        # whole microsecond: written as an int or as x.0
        return base + q if rng.chance(0.5) else float(base + q)
    return base + q + r / 8.0


def _render_dur(rng: Rng, knobs: Dict[str, Any], ticks: int) -> Any:
    if not knobs["fractional"]:
        return int(ticks)
    q, r = divmod(ticks, 8)
    if r == 0:
        return q if rng.chance(0.5) else float(q)
    return q + r / 8.0


def render_file_bytes(f: Dict[str, Any]) -> bytes:
    """Serialise one world file exactly as it goes to disk (before compression)."""
    import json
    if f.get("indent") is None:
        return json.dumps(f["doc"]).encode()
    return json.dumps(f["doc"], indent=f["indent"]).encode()


def write_world(world: Dict[str, Any], directory: str) -> None:
    import gzip
    import os
    os.makedirs(directory, exist_ok=True)
    for f in world["files"]:
        data = render_file_bytes(f)
        path = os.path.join(directory, f["name"])
        if f["format"] == "gz":
            with open(path, "wb") as raw:
                with gzip.GzipFile(fileobj=raw, mode="wb", mtime=0) as g:
                    g.write(data)
        else:
            with open(path, "wb") as fh:
                fh.write(data)
