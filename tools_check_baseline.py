"""Compare a junit xml of the repository's suite with the stable_pass list of BASELINE.json."""
import json
import sys
import xml.etree.ElementTree as ET

base = json.load(open("/root/.vp/BASELINE.json"))
want = set(base["stable_pass"])
root = ET.parse(sys.argv[1]).getroot()
passed = set()
for tc in root.iter("testcase"):
    bad = any(ch.tag in ("failure", "error", "skipped") for ch in tc)
    if not bad:
        passed.add(f"{tc.get('classname')}::{tc.get('name')}")
missing = sorted(want - passed)
print(f"stable_pass={len(want)} passed_now={len(passed)} stable_pass_still_passing={len(want & passed)}")
for m in missing:
    print("  NO LONGER PASSING:", m)
sys.exit(1 if missing else 0)
