"""C13 (call-graph attributes agree with the tree) and C16 (frequent kernel sequences):
session histories on the per-rank frame that every call of a session shares.  Each
call-graph build wipes and rewrites eight columns of that frame and leaves their dtypes
behind for the next build, so the properties hold or fail depending on what was called
before."""
from __future__ import annotations

import json
from fractions import Fraction
from typing import Any, Dict, List, Optional, Set, Tuple

from .. import driver, worldgen
from ..prng import Rng
from . import Result, loader

NAME = "callgraph"
PROPERTIES = ["C13", "C16"]
NOISE_GETTERS = [{"g": "temporal_breakdown"}, {"g": "gpu_kernel_breakdown"}, {"g": "queue_length_series"},
                 {"g": "launch_stats"}, {"g": "comm_comp_overlap"}, {"g": "profiler_steps"},
                 {"g": "critical_path"}, {"g": "critical_path"}, {"g": "idle_time_breakdown"},
                 {"g": "memory_bw_series"}, {"g": "user_annotation_breakdown"}]


def _host_op_names(world: Dict[str, Any], rank: int) -> List[str]:
    f = next(f for f in world["files"] if f["rank"] == rank)
    evs = f["doc"]["traceEvents"]
    host = sorted({e["name"] for e in evs if e.get("cat") == "cpu_op"})
    others = {e.get("name") for e in evs if e.get("cat") not in ("cpu_op", None) and isinstance(e.get("name"), str)}
    return host, others


def gen_operator(rng: Rng, world: Dict[str, Any], rank: int) -> str:
    host, others = _host_op_names(world, rank)
    if not host:
        return "aten::"
    odd = [n for n in host if n in worldgen.ODD_OP_NAMES]
    for _ in range(8):
        # names with characters that are special to some matching syntax are asked for by their full name often
        name = rng.choice(odd) if (odd and rng.chance(0.4)) else rng.choice(host)
        kind = rng.weighted([("full", 4), ("prefix", 3), ("mid", 1)])
        if kind == "full":
            cand = name
        elif kind == "prefix":
            cand = name[: rng.randint(3, max(3, len(name)))]
        else:
            a = rng.randint(0, max(0, len(name) - 3))
            cand = name[a: a + rng.randint(3, 8)]
        if cand and not any(cand in o for o in others if o):
            return cand
    return rng.choice(host)


def gen_history_ops(rng: Rng, world: Dict[str, Any], n: int) -> List[Dict[str, Any]]:
    ranks = [f["rank"] for f in world["files"]]
    ops: List[Dict[str, Any]] = []
    for _ in range(n):
        kind = rng.weighted([("callgraph", 5), ("freq_seq", 5), ("annotate", 1), ("decode", 1), ("noise", 2)])
        if kind == "callgraph":
            sel = rng.weighted([("one", 5), ("all", 2), ("none", 1)])
            probe = [rng.below(100000) for _ in range(rng.randint(0, 3))]
            if sel == "one":
                ops.append({"op": "callgraph", "ranks": [rng.choice(ranks)], "probe_nodes": probe})
            elif sel == "all":
                ops.append({"op": "callgraph", "ranks": list(ranks), "probe_nodes": probe})
            else:
                ops.append({"op": "callgraph", "ranks": None, "probe_nodes": probe})
        elif kind == "freq_seq":
            rank = rng.choice(ranks)
            ops.append({"op": "freq_seq", "operator": gen_operator(rng, world, rank), "rank": rank,
                        "min_len": rng.weighted([(1, 3), (2, 2), (3, 3), (5, 1), (128, 1)]),
                        "top_k": rng.choice([1, 2, 5, 100]), "compress": rng.chance(0.7),
                        "out": rng.choice(["seq_out", "seq_out2"])})
        elif kind == "annotate":
            ops.append({"op": "annotate_kernels", "rank": rng.choice(ranks), "expand": rng.chance(0.7)})
        elif kind == "decode":
            ops.append({"op": "decode_ids", "short": rng.chance(0.5)})
        else:
            g = dict(rng.choice(NOISE_GETTERS))
            if g["g"] in ("critical_path", "idle_time_breakdown", "memory_bw_series", "queue_length_series", "launch_stats"):
                g["ranks"] = [rng.choice(ranks)]
            if g["g"] == "critical_path":
                g["annotation"] = "ProfilerStep"
                g["instance"] = rng.choice([0, 0, 1])
            ops.append({"op": "battery", "getters": [g]})
    return ops


def gen_plan(rng: Rng, tier: str, faulty: bool = False, big: bool = False, huge: bool = False) -> Dict[str, Any]:
    overrides = None
    if big:
        overrides = {"ops_per_step": 32, "steps": 4, "max_depth": 4, "ranks": 1}
    if huge:
        # more than 32767 events in one rank: event ids cross the int16 width
        overrides = {"wide_ops": 20000, "ranks": 1, "steps": 2, "ops_per_step": 2, "max_depth": 2, "flow_p": 0.0,
                     "meta_noise": False, "order": "grouped", "indent": None, "fractional": False, "tiny_events": False}
    world = worldgen.gen_world(rng.fork("world"), "callgraph", overrides)
    sessions = []
    for si in range(rng.weighted([(1, 6), (2, 2)])):
        r = rng.fork(f"s{si}")
        ops: List[Dict[str, Any]] = [{"op": "load", "mode": "ta", "via": "dir", "include_last": r.chance(0.5)}]
        ops += gen_history_ops(r, world, r.randint(2, 3) if huge else r.randint(2, 7))
        sess = {"zygote": r.below(len(driver.HASH_SEEDS)), "env": loader.gen_env(r, len(world["files"]), False),
                "pre": [], "ops": ops}
        if faulty:
            fr = r.fork("faults")
            sess["env"].setdefault("faults", []).append(
                {"kind": fr.choice(["write_enospc", "write_eio"]), "path": "overlaid_", "contains": True,
                 "call": fr.choice([0, 1, 2, 5])})
        sessions.append(sess)
    return {"format": 1, "profile": NAME, "world": world, "sessions": sessions}


# -- oracles --------------------------------------------------------------------------------------
def _F(x: Any) -> Optional[Fraction]:
    if x is None or isinstance(x, str):
        return None
    return Fraction(x)


HOST_CATS = ("cpu_op", "user_annotation", "cuda_runtime", "cuda_driver", "python_function", "Operator")


def check_tree(res: Result, rows_list: List[Dict[str, Any]], si: int, oi: int, build_no: int, what: str) -> Dict[int, Dict[str, Any]]:
    """C13 clauses on one frame as it stands after a build."""
    rows = {r["index"]: r for r in rows_list if isinstance(r.get("index"), int)}
    tag = ("first" if build_no == 0 else "later") + "-build"
    children: Dict[int, List[int]] = {}
    for i, r in rows.items():
        p = r.get("parent")
        if isinstance(p, int) and p >= 0:
            children.setdefault(p, []).append(i)
    res.oracle_evals += 1
    res.nontrivial = True
    n_dev_linked = 0
    for i, r in rows.items():
        p, d, h = r.get("parent"), r.get("depth"), r.get("height")
        is_node = isinstance(d, int) and d >= 0
        stream = r.get("stream")
        link = r.get("index_correlation")
        # (1) device activities on a stream with a link are children of the linked host call
        if isinstance(stream, int) and stream > 0 and isinstance(link, int) and link > 0 and link in rows \
                and rows[link].get("stream") == -1:
            n_dev_linked += 1
            if p != link:
                res.violate("C13", f"device-parent/{tag}", {"id": i, "parent": p, "link": link, "what": what}, si, oi)
                continue
        if not is_node:
            if stream == -1 and r.get("cat") in HOST_CATS and isinstance(d, int):
                # a host event that no call stack contains: every host event of a built rank is a node of its
                # thread's stack, with a depth of 0 or more
                res.violate("C13", f"host-event-outside-call-stacks/{tag}", {"id": i, "depth": d, "parent": p, "what": what}, si, oi)
            continue
        # parent must exist
        if isinstance(p, int) and p >= 0 and p not in rows:
            res.violate("C13", f"dangling-parent/{tag}", {"id": i, "parent": p, "what": what}, si, oi)
            continue
        # (2) depth
        want_d = rows[p]["depth"] + 1 if (isinstance(p, int) and p >= 0 and isinstance(rows[p].get("depth"), int)) else 0
        if d != want_d:
            res.violate("C13", f"depth/{tag}", {"id": i, "depth": d, "want": want_d, "parent": p, "what": what}, si, oi)
        # (3) height
        if isinstance(stream, int) and stream > 0:
            want_h = 0
        else:
            ch = [rows[c].get("height") for c in children.get(i, []) if isinstance(rows[c].get("depth"), int) and rows[c]["depth"] >= 0]
            want_h = 1 if not ch else 1 + max(x if isinstance(x, int) else -1 for x in ch)
            want_h = max(want_h, 1)
        if h != want_h:
            res.violate("C13", f"height/{tag}", {"id": i, "height": h, "want": want_h, "what": what}, si, oi)
    # (4) kernel aggregates over device descendants in the tool's own parent relation
    memo: Dict[int, Tuple[int, Fraction, Optional[Fraction], Optional[Fraction]]] = {}

    def agg(i: int, depth_guard: int = 0) -> Tuple[int, Fraction, Optional[Fraction], Optional[Fraction]]:
        if i in memo:
            return memo[i]
        cnt, sm, first, last = 0, Fraction(0), None, None
        memo[i] = (0, Fraction(0), None, None)  # cycle guard
        for c in children.get(i, []):
            rc = rows[c]
            if isinstance(rc.get("stream"), int) and rc["stream"] > 0:
                ts, dur = _F(rc.get("ts")), _F(rc.get("dur"))
                if ts is None or dur is None:
                    continue
                cnt += 1
                sm += dur
                first = ts if first is None or ts < first else first
                last = ts + dur if last is None or ts + dur > last else last
            else:
                c_cnt, c_sm, c_first, c_last = agg(c, depth_guard + 1)
                cnt += c_cnt
                sm += c_sm
                if c_first is not None:
                    first = c_first if first is None or c_first < first else first
                if c_last is not None:
                    last = c_last if last is None or c_last > last else last
        memo[i] = (cnt, sm, first, last)
        return memo[i]

    import sys
    old = sys.getrecursionlimit()
    sys.setrecursionlimit(max(old, 20000))
    try:
        for i, r in rows.items():
            if r.get("stream") != -1:
                continue
            cnt, sm, first, last = agg(i)
            if cnt == 0:
                want = {"num_kernels": 0, "kernel_dur_sum": 0, "first_kernel_start": -1, "last_kernel_end": -1, "kernel_span": 0}
            else:
                want = {"num_kernels": cnt, "kernel_dur_sum": sm, "first_kernel_start": first, "last_kernel_end": last,
                        "kernel_span": last - first}
                if cnt > 127:
                    res.probe("more_than_127_kernels_under_one_operator")
            for key, w in want.items():
                got = r.get(key)
                if got is None or isinstance(got, str) or Fraction(got) != Fraction(w):
                    res.violate("C13", f"{key}/{tag}", {"id": i, "got": got, "want": str(w), "what": what}, si, oi)
    finally:
        sys.setrecursionlimit(old)
    if len(rows) > 127:
        res.probe("more_than_127_events")
    if len(rows) > 32767:
        res.probe("more_than_32767_events")
    if n_dev_linked:
        res.probe("linked_device_rows_checked", n_dev_linked)
    return rows


def check_backward_clause(res: Result, rows: Dict[int, Dict[str, Any]], si: int, oi: int, tag: str) -> None:
    threads: Dict[Tuple[Any, Any], List[int]] = {}
    for i, r in rows.items():
        if r.get("stream") == -1:
            threads.setdefault((r.get("pid"), r.get("tid")), []).append(i)
    # threads that the tool treats as device threads (pid 0 / tid 0) build no stack
    host_threads = {k: v for k, v in threads.items() if k[0] != 0 and k[1] != 0}
    main = [k for k, ids in host_threads.items() if any(str(rows[i]["name"]).startswith("ProfilerStep#") for i in ids)]
    bwd = [k for k, ids in host_threads.items() if k not in main and any("autograd::" in str(rows[i]["name"]) for i in ids)]
    if len(main) != 1 or len(bwd) != 1:
        return
    m_ids, b_ids = host_threads[main[0]], host_threads[bwd[0]]
    anns = [i for i in m_ids if str(rows[i]["name"]).startswith("## backward ##")]
    if not anns:
        anns = [i for i in m_ids if str(rows[i]["name"]).startswith("ProfilerStep#")]
    if not anns:
        return

    def span(i: int) -> Tuple[Fraction, Fraction]:
        ts = Fraction(rows[i]["ts"])
        return ts, ts + Fraction(rows[i]["dur"])

    # top-level operators of the autograd thread by interval containment (identical spans: file order)
    tops = []
    for i in b_ids:
        a0, a1 = span(i)
        enclosed = False
        for j in b_ids:
            if j == i:
                continue
            b0, b1 = span(j)
            if b0 <= a0 and a1 <= b1 and ((b0, b1) != (a0, a1) or j < i) and b1 > b0:
                enclosed = True
                break
        if not enclosed:
            tops.append(i)
    for i in tops:
        a0, a1 = span(i)
        within = [a for a in anns if span(a)[0] <= a0 and a1 <= span(a)[1]]
        if len(within) != 1:
            continue
        res.oracle_evals += 1
        res.probe("backward_linking_checked")
        if rows[i].get("parent") != within[0]:
            res.violate("C13", f"backward-link/{tag}", {"id": i, "parent": rows[i].get("parent"), "want": within[0]}, si, oi)


def check_stack_probe(res: Result, rows: Dict[int, Dict[str, Any]], pr: Dict[str, Any], si: int, oi: int) -> None:
    """CallGraph.get_stack_of_node(idx): the node, its descendants and (unless skipped) its ancestors,
    in the tool's own parent relation.  For a device activity: itself plus the ancestors of its launch."""
    node = pr["node"]
    if node not in rows:
        return
    row = rows[node]
    children: Dict[int, List[int]] = {}
    for i, r in rows.items():
        p = r.get("parent")
        if isinstance(p, int) and p >= 0:
            children.setdefault(p, []).append(i)

    def ancestors(i: int) -> Set[int]:
        out: Set[int] = set()
        seen = 0
        while isinstance(i, int) and i >= 0 and i in rows and seen < 100000:
            out.add(i)
            i = rows[i].get("parent")
            seen += 1
        return out

    is_device = isinstance(row.get("stream"), int) and row["stream"] > 0
    if is_device:
        p = row.get("parent")
        if not (isinstance(p, int) and p >= 0 and p in rows):
            return  # an unlinked device activity has no stack: behaviour not specified
        want = {node} | (set() if pr["skip_ancestors"] else ancestors(p))
    else:
        if not (isinstance(row.get("depth"), int) and row["depth"] >= 0):
            return  # not part of any call stack (e.g. an event on a device "thread")
        sub: Set[int] = set()
        stack = [node]
        while stack:
            x = stack.pop()
            if x in sub:
                continue
            sub.add(x)
            stack.extend(children.get(x, []))
        want = sub | (set() if pr["skip_ancestors"] else ancestors(node))
    res.oracle_evals += 1
    res.probe("stack_of_node_checked")
    if "exc" in pr:
        res.violate("C13", f"get_stack_of_node-raised/{pr['exc']}", {"node": node, "rank": pr["rank"]}, si, oi)
        return
    if set(pr["ids"]) != want:
        res.violate("C13", "get_stack_of_node/" + ("device" if is_device else "host"),
                    {"node": node, "rank": pr["rank"], "skip_ancestors": pr["skip_ancestors"],
                     "missing": sorted(want - set(pr["ids"]))[:6], "extra": sorted(set(pr["ids"]) - want)[:6]}, si, oi)


def expected_patterns(rows: Dict[int, Dict[str, Any]], operator: str, min_len: int) -> Optional[Dict[str, List[Any]]]:
    """C16 reference from the tool's own tree; None when kernel order is ambiguous."""
    children: Dict[int, List[int]] = {}
    for i, r in rows.items():
        p = r.get("parent")
        if isinstance(p, int) and p >= 0:
            children.setdefault(p, []).append(i)
    cands = [i for i, r in rows.items() if isinstance(r.get("name"), str) and operator in r["name"]]
    if not cands:
        return {}

    # call-stack depth = number of ancestors in the tool's parent relation (the depth column itself is
    # C13's subject and is not trusted here); events outside every call stack have no depth
    def depth_of(i: int) -> Optional[int]:
        if not (isinstance(rows[i].get("depth"), int) and rows[i]["depth"] >= 0):
            return None
        d, seen = 0, 0
        p = rows[i].get("parent")
        while isinstance(p, int) and p >= 0 and p in rows and seen < 100000:
            d += 1
            seen += 1
            p = rows[p].get("parent")
        return d

    depth = {i: depth_of(i) for i in cands}
    depths = [d for d in depth.values() if d is not None]
    if not depths:
        return {}
    dmin = min(depths)
    if any(d is None for d in depth.values()):
        # a matching event outside every call stack: the tool's "shallowest depth" is then -1 and
        # nothing is reported; the property does not speak about such events, so the reference follows
        return {} if any(rows[i].get("depth") == -1 for i in cands) else None
    out: Dict[str, List[Any]] = {}
    for i in cands:
        if depth[i] != dmin:
            continue
        kern: List[int] = []
        stack = [i]
        seen = set()
        while stack:
            x = stack.pop()
            if x in seen:
                continue
            seen.add(x)
            for c in children.get(x, []):
                if isinstance(rows[c].get("stream"), int) and rows[c]["stream"] != -1:
                    kern.append(c)
                else:
                    stack.append(c)
        if len(kern) < min_len:
            continue
        kern.sort(key=lambda c: (Fraction(rows[c]["ts"]), c))
        tss = [Fraction(rows[c]["ts"]) for c in kern]
        if len(set(tss)) != len(tss):
            names_at = {}
            for c in kern:
                names_at.setdefault(Fraction(rows[c]["ts"]), set()).add(rows[c]["name"])
            if any(len(v) > 1 for v in names_at.values()):
                return None
        pat = "|".join([rows[i]["name"]] + [rows[c]["name"] for c in kern])
        rec = out.setdefault(pat, [0, Fraction(0), Fraction(0)])
        rec[0] += 1
        rec[1] += sum(Fraction(rows[c]["dur"]) for c in kern)
        rec[2] += Fraction(rows[i]["dur"])
    return out


def host_ops_outside_stacks(rows: Dict[int, Dict[str, Any]], operator: str) -> List[int]:
    """Matching host operators that the built call stacks do not contain at all (depth -1): whatever the reason,
    the analysis then does not consider an operator instance the property says it considers."""
    return [i for i, r in rows.items()
            if isinstance(r.get("name"), str) and operator in r["name"] and r.get("stream") == -1
            and r.get("cat") in HOST_CATS and r.get("depth") == -1]


def check(plan: Dict[str, Any], execution: Dict[str, Any], props: Optional[Set[str]] = None) -> Result:
    res = Result()
    loader.collect_probes(res, execution)
    for si, (sess, sx) in enumerate(zip(plan["sessions"], execution["sessions"])):
        results = driver.op_results(sx)
        first_build: Dict[int, Any] = {}      # rank -> canonical stack columns of the first build
        loaded_ids: Dict[int, Set[int]] = {}
        builds: Dict[int, int] = {}
        first_seq: Dict[str, Any] = {}
        last_built_rank = None
        for r in results:
            if r.get("skipped"):
                continue
            o = sess["ops"][r["i"]]
            fired = [e for e in r["events"] if e.get("ev") == "fault_fired"]
            if o["op"] == "load" and r["ok"]:
                loaded_ids = {int(k): {row["index"] for row in v if isinstance(row.get("index"), int)}
                              for k, v in r["obs"]["ranks"].items()}
            if o["op"] == "callgraph":
                if not r["ok"]:
                    if o.get("ranks") is not None and not set(o["ranks"]):
                        continue
                    res.violate("C13", f"build-raised/{r.get('exc')}@{r.get('where')}", {"msg": r.get("msg")}, si, r["i"])
                    continue
                for rk, fr in r["obs"]["ranks"].items():
                    rank = int(rk)
                    n = builds.get(rank, 0)
                    rows = check_tree(res, fr["rows"], si, r["i"], n, "CallGraph")
                    _check_rows_kept(res, "C13", rank, rows, loaded_ids, si, r["i"])
                    check_backward_clause(res, rows, si, r["i"], ("first" if n == 0 else "later") + "-build")
                    stack = _stack_digest(fr["rows"])
                    if rank not in first_build:
                        first_build[rank] = stack
                    if n > 0:
                        res.probe("second_build")
                        if last_built_rank is not None and last_built_rank != rank:
                            res.probe("build_after_another_ranks_build")
                        if stack != first_build[rank]:
                            diff = _first_diff(first_build[rank], stack)
                            res.violate("C13", f"history-dependence/{diff[0] if diff else 'rows'}",
                                        {"rank": rank, "build": n, "diff": diff}, si, r["i"])
                    builds[rank] = n + 1
                    last_built_rank = rank
                    res.states.add(("build", min(n, 3), len(fr["rows"]) > 127))
                    for pr in r["obs"].get("stack_probes", []):
                        if pr["rank"] == rank:
                            check_stack_probe(res, rows, pr, si, r["i"])
            elif o["op"] == "freq_seq":
                rank = o["rank"]
                if not r["ok"]:
                    if fired:
                        res.probe("freq_seq_raised_under_fault")
                        builds[rank] = builds.get(rank, 0) + 1
                        continue
                    res.violate("C16", f"call-raised/{r.get('exc')}@{r.get('where')}", {"msg": r.get("msg"), "op": o}, si, r["i"])
                    continue
                obs = r["obs"]
                if "frame" not in obs:
                    continue
                n = builds.get(rank, 0)
                rows = check_tree(res, obs["frame"]["rows"], si, r["i"], n, "freq_seq")
                _check_rows_kept(res, "C16", rank, rows, loaded_ids, si, r["i"])
                stack = _stack_digest(obs["frame"]["rows"])
                if rank not in first_build:
                    first_build[rank] = stack
                elif stack != first_build[rank]:
                    diff = _first_diff(first_build[rank], stack)
                    res.violate("C13", f"history-dependence/{diff[0] if diff else 'rows'}",
                                {"rank": rank, "build": n, "diff": diff, "via": "freq_seq"}, si, r["i"])
                if n > 0:
                    res.probe("second_build")
                builds[rank] = n + 1
                last_built_rank = rank
                # --- C16
                lost = host_ops_outside_stacks(rows, o["operator"])
                if lost:
                    res.violate("C16", "matching-host-operator-outside-call-stacks", {"ids": lost[:5], "n": len(lost), "op": o}, si, r["i"])
                exp = expected_patterns(rows, o["operator"], int(o["min_len"]))
                if exp is None:
                    res.probe("ambiguous_kernel_order")
                    continue
                res.oracle_evals += 1
                got = {}
                order_ok = True
                prev = None
                for row in obs["rows"]:
                    got[row.get("pattern")] = [row.get("count"), row.get("GPU kernel duration (us)"), row.get("CPU op duration (us)")]
                    if prev is not None and row.get("count") is not None and row["count"] > prev:
                        order_ok = False
                    prev = row.get("count")
                tag = ("first" if n == 0 else "later") + "-call"
                if exp:
                    res.probe("patterns_found")
                if set(got) != set(exp):
                    res.violate("C16", f"pattern-set/{tag}", {"missing": sorted(set(exp) - set(got))[:3],
                                                              "extra": sorted(set(got) - set(exp))[:3], "op": o}, si, r["i"])
                else:
                    for pat, (cnt, gsum, csum) in exp.items():
                        g = got[pat]
                        if g[0] != cnt:
                            res.violate("C16", f"count/{tag}", {"pattern": pat[:120], "got": g[0], "want": cnt}, si, r["i"])
                        if g[1] is None or Fraction(g[1]) != gsum:
                            res.violate("C16", f"gpu-duration/{tag}", {"pattern": pat[:120], "got": g[1], "want": str(gsum)}, si, r["i"])
                        if g[2] is None or Fraction(g[2]) != csum:
                            res.violate("C16", f"cpu-duration/{tag}", {"pattern": pat[:120], "got": g[2], "want": str(csum)}, si, r["i"])
                if not order_ok:
                    res.violate("C16", f"row-order/{tag}", {"counts": [x.get("count") for x in obs["rows"]]}, si, r["i"])
                key = json.dumps([o["operator"], o["min_len"], rank])
                canon = sorted((k, json.dumps(v)) for k, v in got.items())
                if key in first_seq:
                    res.probe("repeated_call_same_arguments")
                    if first_seq[key] != canon:
                        res.violate("C16", "history-dependence/repeated-call", {"op": o}, si, r["i"])
                else:
                    first_seq[key] = canon
                res.states.add(("freq_seq", min(n, 3), bool(exp), int(o["min_len"]) > 100))
    return res


def _check_rows_kept(res: Result, prop: str, rank: int, rows: Dict[int, Any], loaded_ids: Dict[int, Set[int]],
                     si: int, oi: int) -> None:
    """The session's frame must still hold exactly the events that the load produced: the call graph
    (C13) and the kernel sequences (C16) are statements about the loaded trace, not about whatever an
    earlier call left of it."""
    want = loaded_ids.get(rank)
    if want is None:
        return
    got = set(rows)
    if got != want:
        res.violate(prop, "session-frame-rows-changed",
                    {"rank": rank, "lost": sorted(want - got)[:8], "n_lost": len(want - got), "gained": sorted(got - want)[:8]}, si, oi)


def _stack_digest(rows: List[Dict[str, Any]]) -> Dict[int, List[Any]]:
    from ..session import STACK_COLS
    return {r["index"]: [r.get(c) for c in STACK_COLS] for r in rows if isinstance(r.get("index"), int)}


def _first_diff(a: Dict[int, List[Any]], b: Dict[int, List[Any]]) -> Optional[List[Any]]:
    from ..session import STACK_COLS
    for i in sorted(a):
        if i not in b:
            return ["rows", i]
        if a[i] != b[i]:
            for c, x, y in zip(STACK_COLS, a[i], b[i]):
                if x != y:
                    return [c, i, x, y]
    return None
