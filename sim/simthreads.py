"""Threads under the simulator: real threads, one runnable at a time, a baton passed at yield points.

Every task of a (simulated) ThreadPoolExecutor / ThreadPool and every started threading.Thread is a *unit*: a real
OS thread that only runs while the scheduler - the thread that is waiting for a result, a join, a lock or the end of
the operation - has handed it the baton, and that hands the baton back at its next yield point:

  * before acquiring a threading.Lock / RLock created during the session (and when it finds the lock taken);
  * after a tape-chosen number of executed source lines of the system under test (sys.settrace line events in files
    under /hta/; the count is drawn from the tape: 1, 2, 3, 5, 8, 20, 60 lines or "not by lines");
  * when it finishes.

Which unit gets the baton next is a tape choice, so one plan is one interleaving, replayable. Between two yield points
exactly one thread of the session executes, so real timing cannot influence anything.

Not simulated (a unit that blocks there blocks for real and the run ends at the kill switch as a harness problem):
waits on threading.Condition / Event / Semaphore / Barrier and queue.Queue.get inside a unit.
"""
from __future__ import annotations

import _thread
import hashlib
import json
import sys
from typing import Any, Callable, List, Optional

PREEMPT_AFTER = (10 ** 9, 1, 2, 3, 5, 8, 20, 60)


class Unit:
    def __init__(self, no: int, fn: Callable[[], Any], group: Any, capacity: Optional[int]) -> None:
        self.no = no
        self.fn = fn
        self.group = group            # executor (capacity-limited, FIFO start window) or None for bare threads
        self.capacity = capacity
        self.state = "new"            # new | running | parked | blocked | done
        self.blocked_on: Any = None
        self.go = _thread.allocate_lock()
        self.go.acquire()
        self.back: Any = None
        self.countdown = 10 ** 9
        self.exc: Optional[BaseException] = None


class ThreadSched:
    def __init__(self, env: Any) -> None:
        self.env = env
        self.units: List[Unit] = []
        self.tls = _thread._local()
        self.pool_no: Optional[int] = None
        self.tape: List[int] = []
        self.pos = 0
        self.order: List[int] = []
        self.n = 0
        self.yields = 0
        self.executors: List[Any] = []

    # -- tape ---------------------------------------------------------------------------------------
    def _ensure_pool(self) -> None:
        if self.pool_no is None:
            self.pool_no = self.env.next_pool_no()
            self.tape = self.env.pool_tape(self.pool_no)
            self.pos = 0
            self.env.log("pool_create", pool=self.pool_no, n=0, threads=True)

    def choose(self, n: int, what: str) -> int:
        if n <= 1:
            return 0
        self._ensure_pool()
        raw = self.tape[self.pos] if self.pos < len(self.tape) else 0
        self.pos += 1
        c = raw % n
        self.env.log("choice", pool=self.pool_no, what=what, n=n, c=c)
        self.env.stats["choices"] += 1
        return c

    # -- units --------------------------------------------------------------------------------------
    def current_unit(self) -> Optional[Unit]:
        return getattr(self.tls, "unit", None)

    def add(self, fn: Callable[[], Any], group: Any = None, capacity: Optional[int] = None, api: str = "thread_start") -> Unit:
        self._ensure_pool()
        u = Unit(self.n, fn, group, capacity)
        self.n += 1
        self.units.append(u)
        self.env.log("pool_call", pool=self.pool_no, api=api)
        return u

    def _candidates(self) -> List[Unit]:
        out: List[Unit] = []
        started = {}
        window = {}
        for u in self.units:
            if u.state in ("running", "parked", "blocked") and u.group is not None:
                started[id(u.group)] = started.get(id(u.group), 0) + 1
        for u in self.units:
            if u.state == "parked":
                out.append(u)
            elif u.state == "blocked":
                if u.blocked_on is None or u.blocked_on._free_for(u):
                    out.append(u)
            elif u.state == "new":
                if u.group is None or u.capacity is None:
                    out.append(u)
                else:
                    # a pool starts its tasks in submission order, as many at a time as it has workers
                    free = u.capacity - started.get(id(u.group), 0) - window.get(id(u.group), 0)
                    if free > 0:
                        window[id(u.group)] = window.get(id(u.group), 0) + 1
                        out.append(u)
        return out

    def step(self) -> bool:
        """Hands the baton to one unit until its next yield point. False when no unit is left to run."""
        cands = self._candidates()
        if not cands:
            if any(u.state == "blocked" for u in self.units):
                from .simpool import SimDeadlock
                raise SimDeadlock("every remaining thread waits for a lock")
            return False
        u = cands[self.choose(len(cands), "thread_next")]
        self.env.stats["sched_steps"] += 1
        u.back = _thread.allocate_lock()
        u.back.acquire()
        back = u.back
        if u.state == "new":
            u.state = "running"
            u.countdown = PREEMPT_AFTER[self.choose(len(PREEMPT_AFTER), "preempt_after")]
            _thread.start_new_thread(self._boot, (u,))
        else:
            u.state = "running"
            u.blocked_on = None
            u.go.release()
        back.acquire()   # until the unit yields or finishes
        return True

    def _boot(self, u: Unit) -> None:
        self.tls.unit = u
        sys.settrace(self._trace_call)
        try:
            u.fn()
        except BaseException as exc:  # noqa: BLE001 - reported by whoever owns the unit
            u.exc = exc
        finally:
            sys.settrace(None)
            u.state = "done"
            self.order.append(u.no)
            try:
                self.units.remove(u)
            except ValueError:
                pass
            u.back.release()

    def yield_point(self, kind: str, blocked_on: Any = None) -> None:
        u = self.current_unit()
        if u is None or u.state != "running":
            return
        self.yields += 1
        u.state = "blocked" if blocked_on is not None else "parked"
        u.blocked_on = blocked_on
        u.back.release()
        u.go.acquire()

    # -- line pre-emption -----------------------------------------------------------------------------
    def _trace_call(self, frame: Any, event: str, arg: Any) -> Any:
        if event == "call" and "/hta/" in frame.f_code.co_filename:
            return self._trace_line
        return None

    def _trace_line(self, frame: Any, event: str, arg: Any) -> Any:
        if event == "line":
            u = self.current_unit()
            if u is not None and u.state == "running":
                u.countdown -= 1
                if u.countdown <= 0:
                    u.countdown = PREEMPT_AFTER[self.choose(len(PREEMPT_AFTER), "preempt_after")]
                    self.yield_point("line")
        return self._trace_line

    # -- waiting ---------------------------------------------------------------------------------------
    def run_until(self, done: Callable[[], bool]) -> None:
        while not done():
            if not self.step():
                from .simpool import SimHarnessError
                raise SimHarnessError("waiting for a thread that can never run")

    def drain(self) -> None:
        """End of the operation: threads that were started and never joined finish first."""
        for ex in list(self.executors):
            ex._finish_submitted()
        while self.step():
            pass
        if self.pool_no is not None and self.order:
            order = self.order
            self.env.log("schedule", pool=self.pool_no, digest=hashlib.sha256(json.dumps(order).encode()).hexdigest()[:16],
                         n_chunks=len(order), in_order=(order == sorted(order)), proxy_calls=self.yields, interleaved=self.yields > 0)
        self.pool_no = None
        self.order = []
        self.n = 0
        self.yields = 0
        self.executors = []

    # -- bare threading.Thread ---------------------------------------------------------------------
    def start(self, th: Any) -> None:
        if getattr(th, "_sim_state", None) is not None:
            raise RuntimeError("threads can only be started once")
        th._sim_state = "pending"

        def body() -> None:
            try:
                th.run()
            except SystemExit:
                pass
            except BaseException as exc:  # noqa: BLE001 - as threading.excepthook: reported, the thread ends
                self.env.log("thread_exception", exc=type(exc).__name__)
            finally:
                th._sim_state = "done"

        th._sim_unit = self.add(body)

    def join(self, th: Any) -> None:
        if self.current_unit() is not None and getattr(th, "_sim_unit", None) is self.current_unit():
            raise RuntimeError("cannot join current thread")
        self.run_until(lambda: getattr(th, "_sim_state", None) == "done")


MAIN = object()


class SimLock:
    """threading.Lock for the simulated session: plain state, because only one thread runs at a time; acquiring is a
    yield point, finding it taken parks the unit until it is free."""
    _reentrant = False

    def __init__(self) -> None:
        self._owner: Any = None
        self._count = 0

    def _sched(self) -> Optional[ThreadSched]:
        from . import simenv
        env = simenv.current()
        return getattr(env, "threads", None) if env is not None else None

    def _free_for(self, u: Any) -> bool:
        return self._owner is None or (self._reentrant and self._owner is u)

    def acquire(self, blocking: bool = True, timeout: float = -1) -> bool:
        sched = self._sched()
        u = sched.current_unit() if sched is not None else None
        me = u if u is not None else MAIN
        if u is not None:
            sched.yield_point("lock")
        while not self._free_for(me):
            if not blocking:
                return False
            if u is not None:
                sched.yield_point("blocked", blocked_on=self)
            else:
                if sched is None or not sched.step():
                    from .simpool import SimDeadlock
                    raise SimDeadlock("lock is held and nothing can run to release it")
        self._owner = me
        self._count += 1
        return True

    def release(self) -> None:
        if self._owner is None:
            raise RuntimeError("release unlocked lock")
        self._count -= 1
        if self._count <= 0:
            self._owner = None
            self._count = 0

    def locked(self) -> bool:
        return self._owner is not None

    def __enter__(self) -> bool:
        return self.acquire()

    def __exit__(self, *exc: Any) -> None:
        self.release()

    def _at_fork_reinit(self) -> None:
        self._owner = None
        self._count = 0


class SimRLock(SimLock):
    _reentrant = True

    def release(self) -> None:
        sched = self._sched()
        u = sched.current_unit() if sched is not None else None
        me = u if u is not None else MAIN
        if self._owner is not me:
            raise RuntimeError("cannot release un-acquired lock")
        super().release()

    # the interface threading.Condition looks for
    def _is_owned(self) -> bool:
        sched = self._sched()
        u = sched.current_unit() if sched is not None else None
        return self._owner is (u if u is not None else MAIN)

    def _release_save(self) -> Any:
        st = (self._owner, self._count)
        self._owner, self._count = None, 0
        return st

    def _acquire_restore(self, st: Any) -> None:
        self.acquire()
        self._owner, self._count = st
